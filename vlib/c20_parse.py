"""
C20 oracles: one reader per kind of generated file.

* Python      -> ``ast.parse`` (CPython's own parser)
* TypeScript  -> node 22 ``module.stripTypeScriptTypes(..., {mode: "transform"})`` via drivers/tsparse.js
* Java        -> drivers/ParseOnly.java (JDK compiler API, ``JavacTask.parse()`` only)
* C++         -> ``g++ -std=c++17 -fsyntax-only`` (only lexer/parser kinds of diagnostics count)
                 + a textual rule: a ``//`` comment line ending in a backslash splices the next line
* JSON        -> ``json.loads``;  XML/XSD -> ``xml.etree``
* C#, Go      -> lexers written from the language specifications (comments, literals, brackets):
                 *lexical* well-formedness only; C# ``///`` blocks are parsed as XML fragments.

Every function returns a list of ``Diag(file, line, code, message)``.
"""
from __future__ import annotations

import ast
import dataclasses
import json
import os
import pathlib
import re
import shutil
import subprocess
import unicodedata
import xml.etree.ElementTree as ET
from typing import Any, Dict, Iterable, List, Optional, Sequence, Tuple

VERIF = pathlib.Path(__file__).resolve().parent.parent
NODE = "/root/.nvm/versions/node/v22.22.2/bin/node"
THIRD_PARTY_INCLUDE = VERIF / "third_party" / "include"


@dataclasses.dataclass
class Diag:
    file: str  # path relative to the output directory
    line: int  # 1-based; 0 = unknown
    code: str  # short class of the diagnostic
    message: str


# ---------------------------------------------------------------------------
# Python / JSON / XML
# ---------------------------------------------------------------------------


def check_python(path: pathlib.Path, rel: str) -> List[Diag]:
    data = path.read_bytes()
    try:
        compile(data, rel, "exec", flags=ast.PyCF_ONLY_AST, dont_inherit=True)
    except SyntaxError as e:
        msg = e.msg or ""
        code = re.sub(r"\(detected at line \d+\)|'[^']*'|\d+", "", msg).strip().replace(" ", "-")[:60]
        return [Diag(rel, e.lineno or 0, f"SyntaxError:{code}", f"{msg} at line {e.lineno}: {(e.text or '').strip()[:200]}")]
    except ValueError as e:  # e.g. source code string cannot contain null bytes
        return [Diag(rel, 0, "ValueError", str(e)[:300])]
    return []


def check_json(path: pathlib.Path, rel: str) -> List[Diag]:
    try:
        json.loads(path.read_text(encoding="utf-8"))
    except ValueError as e:
        return [Diag(rel, getattr(e, "lineno", 0) or 0, "json-not-well-formed", str(e)[:300])]
    return []


def check_xml(path: pathlib.Path, rel: str) -> List[Diag]:
    try:
        ET.parse(str(path))
    except ET.ParseError as e:
        line = e.position[0] if getattr(e, "position", None) else 0
        return [Diag(rel, line, "xml-not-well-formed", str(e)[:300])]
    return []


# ---------------------------------------------------------------------------
# TypeScript (node) and Java (ParseOnly)
# ---------------------------------------------------------------------------


class ToolError(Exception):
    """A tool of the harness is missing or broken (-> harness error, never a violation)."""


def check_typescript(root: pathlib.Path, rels: Sequence[str]) -> List[Diag]:
    if not rels:
        return []
    if not os.path.exists(NODE):
        raise ToolError(f"node 22 not found at {NODE}")
    stdin = "".join(f"{root / r}\n" for r in rels)
    proc = subprocess.run(
        [NODE, "--disable-warning=ExperimentalWarning", str(VERIF / "drivers" / "tsparse.js")],
        input=stdin.encode("utf-8"), stdout=subprocess.PIPE, stderr=subprocess.PIPE, check=False,
    )
    out = proc.stdout.decode("utf-8", "replace")
    diags = []  # type: List[Diag]
    seen = 0
    for ln in out.splitlines():
        if not ln.strip():
            continue
        rec = json.loads(ln)
        if "fatal" in rec:
            raise ToolError(rec["fatal"])
        seen += 1
        if not rec["ok"]:
            rel = os.path.relpath(rec["path"], str(root))
            if rec.get("code") != "ERR_INVALID_TYPESCRIPT_SYNTAX":
                raise ToolError(f"tsparse.js: unexpected failure on {rel}: {rec}")
            msg = rec.get("error", "")
            diags.append(Diag(rel, int(rec.get("line") or 0),
                              "ts-syntax:" + re.sub(r"'[^']*'|\d+", "", msg).strip().replace(" ", "-")[:50],
                              f"{msg} at line {rec.get('line')}: {rec.get('frame', '')}"))
    if proc.returncode != 0 or seen != len(rels):
        raise ToolError(f"tsparse.js rc={proc.returncode} saw {seen}/{len(rels)}: {proc.stderr.decode('utf-8', 'replace')[:500]}")
    return diags


def ensure_parse_only(scratch: pathlib.Path) -> pathlib.Path:
    """Directory with ParseOnly.class; built once into /verif/build (git-ignored), else into scratch."""
    src = VERIF / "drivers" / "ParseOnly.java"
    final = VERIF / "build" / "parseonly"
    cls = final / "ParseOnly.class"
    if cls.exists() and cls.stat().st_mtime >= src.stat().st_mtime:
        return final
    if shutil.which("javac") is None:
        raise ToolError("javac not found")
    tmp = scratch / f"parseonly-{os.getpid()}"
    tmp.mkdir(parents=True, exist_ok=True)
    proc = subprocess.run(["javac", "-d", str(tmp), str(src)], stdout=subprocess.PIPE, stderr=subprocess.STDOUT, check=False)
    if proc.returncode != 0 or not (tmp / "ParseOnly.class").exists():
        raise ToolError(f"javac ParseOnly.java failed: {proc.stdout.decode('utf-8', 'replace')[:800]}")
    try:
        final.parent.mkdir(parents=True, exist_ok=True)
        staging = final.parent / f"parseonly.tmp-{os.getpid()}"
        shutil.copytree(tmp, staging)
        if final.exists():
            shutil.rmtree(final, ignore_errors=True)
        os.rename(staging, final)
        return final
    except OSError:
        return tmp  # another shard won the race or /verif/build is not writable: use the private copy


def run_parse_only(classes: pathlib.Path, root: pathlib.Path, rels: Sequence[str]) -> Tuple[List[Diag], List[Tuple[str, str, str]], List[Tuple[str, str, str, str]]]:
    """(diagnostics, types [(rel, kind, qualified name)], members [(rel, type, kind, name)])."""
    if not rels:
        return [], [], []
    stdin = "".join(f"{root / r}\n" for r in rels)
    proc = subprocess.run(
        ["java", "-Xshare:auto", "-XX:TieredStopAtLevel=1", "-cp", str(classes), "ParseOnly"],
        input=stdin.encode("utf-8"), stdout=subprocess.PIPE, stderr=subprocess.PIPE, check=False,
    )
    if proc.returncode != 0:
        raise ToolError(f"ParseOnly rc={proc.returncode}: {proc.stderr.decode('utf-8', 'replace')[:500]}")
    diags = []  # type: List[Diag]
    types = []  # type: List[Tuple[str, str, str]]
    members = []  # type: List[Tuple[str, str, str, str]]
    done = 0
    for ln in proc.stdout.decode("utf-8", "replace").split("\n"):
        parts = ln.split("\t")
        if parts[0] == "E" and len(parts) >= 6:
            rel = os.path.relpath(parts[1], str(root))
            diags.append(Diag(rel, int(parts[2]) if parts[2].lstrip("-").isdigit() else 0, "javac:" + parts[4].replace("compiler.err.", ""), parts[5][:300]))
        elif parts[0] == "T" and len(parts) >= 4:
            types.append((os.path.relpath(parts[1], str(root)), parts[2], parts[3]))
        elif parts[0] == "M" and len(parts) >= 5:
            members.append((os.path.relpath(parts[1], str(root)), parts[2], parts[3], parts[4]))
        elif parts[0] == "F":
            done += 1
    if done != len(rels):
        raise ToolError(f"ParseOnly handled {done}/{len(rels)} files")
    return diags, types, members


# ---------------------------------------------------------------------------
# C++
# ---------------------------------------------------------------------------

_CPP_SYNTAX_RE = re.compile(
    r"unterminated|missing terminating|stray|"
    r"expected .* (before|at end of input|after)|"
    r"expected (unqualified-id|primary-expression|identifier|declaration|initializer|class-name|type-specifier|"
    r"constructor, destructor|nested-name-specifier|template-name|namespace-name|expression|statement|"
    r"'[^']+'|\S+) |expected .* token|"
    r"universal character|string literal operator|invalid suffix|null character|"
    r"does not name a type; did you mean|#include expects|invalid preprocessing directive|"
    r"extended character|raw string delimiter|empty character constant|character constant too long"
)


def cpp_line_comment_splices(path: pathlib.Path, rel: str) -> List[Diag]:
    """[lex.phases] 2: backslash + new-line is deleted *before* comments are recognised."""
    out = []  # type: List[Diag]
    lines = path.read_text(encoding="utf-8", errors="replace").split("\n")
    for i, ln in enumerate(lines[:-1]):
        st = ln.lstrip()
        if st.startswith("//") and ln.rstrip(" \t\r").endswith("\\"):
            nxt = lines[i + 1].lstrip()
            if nxt and not nxt.startswith("//"):
                out.append(Diag(rel, i + 1, "line-comment-ends-with-backslash",
                                f"line comment ends with a backslash and swallows the next line: {ln.strip()[:160]!r} / {nxt[:80]!r}"))
    return out


def check_cpp_tu(root: pathlib.Path, rel: str) -> Tuple[List[Diag], List[str]]:
    """Compile one translation unit: (syntax diagnostics, other error messages = inconclusive)."""
    if shutil.which("g++") is None:
        raise ToolError("g++ not found")
    if not (THIRD_PARTY_INCLUDE / "nlohmann" / "json.hpp").exists() or not (THIRD_PARTY_INCLUDE / "tl" / "expected.hpp").exists():
        raise ToolError(f"C++ third-party headers are missing under {THIRD_PARTY_INCLUDE}")
    cmd = ["g++", "-std=c++17", "-fsyntax-only", "-fmax-errors=40", "-fdiagnostics-format=json", "-w", "-x", "c++",
           f"-I{root / 'include'}", f"-I{root / 'test'}", f"-I{THIRD_PARTY_INCLUDE}", str(root / rel)]
    proc = subprocess.run(cmd, stdout=subprocess.PIPE, stderr=subprocess.PIPE, check=False)
    err = proc.stderr.decode("utf-8", "replace")
    syntax = []  # type: List[Diag]
    other = []  # type: List[str]
    records = []  # type: List[Any]
    try:
        # one JSON array per compilation stage; a fatal error may leave plain text after it
        dec = json.JSONDecoder()
        pos = 0
        text = err.strip()
        while pos < len(text) and text[pos] == "[":
            arr, end = dec.raw_decode(text, pos)
            records.extend(arr)
            pos = end
            while pos < len(text) and text[pos] in " \r\n\t":
                pos += 1
        if pos == 0 and text:
            raise ValueError("no JSON")
    except ValueError:
        if proc.returncode != 0:
            raise ToolError(f"g++ rc={proc.returncode} with unreadable diagnostics: {err[:400]}")
        records = []
    for rec in records:
        if rec.get("kind") not in ("error", "fatal error"):
            continue
        msg = rec.get("message", "")
        loc = (rec.get("locations") or [{}])[0].get("caret", {})
        f = loc.get("file", "")
        line = int(loc.get("line", 0) or 0)
        frel = os.path.relpath(f, str(root)) if f.startswith(str(root)) else f
        if rec.get("kind") == "fatal error" and "No such file" in msg:
            raise ToolError(f"g++: {msg}")
        if _CPP_SYNTAX_RE.search(msg):
            code = re.sub(r"'[^']*'|\u2018[^\u2019]*\u2019|\d+", "_", msg).strip().replace(" ", "-")[:60]
            syntax.append(Diag(frel, line, "g++:" + code, msg[:300]))
        else:
            other.append(f"{frel}:{line}: {msg[:200]}")
    return syntax, other


# ---------------------------------------------------------------------------
# C# lexer (ECMA-334 / C# 6 "Lexical structure": comments, literals, interpolated strings)
# ---------------------------------------------------------------------------

_CS_NEWLINES = "\r\n\u0085\u2028\u2029"
_HEX = "0123456789abcdefABCDEF"
_OPEN = {"(": ")", "[": "]", "{": "}"}
_CLOSE = {")", "]", "}"}
_CS_OPERATORS = set("+-*/%&|^!~=<>?:;,.@")


def _is_ident_char(ch: str) -> bool:
    if ch == "_" or ch.isalnum():
        return True
    return unicodedata.category(ch) in ("Lu", "Ll", "Lt", "Lm", "Lo", "Nl", "Mn", "Mc", "Nd", "Pc", "Cf")


class _Lexer:
    def __init__(self, src: str, rel: str) -> None:
        self.s = src
        self.n = len(src)
        self.rel = rel
        self.diags = []  # type: List[Diag]

    def line_of(self, pos: int) -> int:
        return self.s.count("\n", 0, pos) + 1

    def err(self, pos: int, code: str, msg: str) -> None:
        if len(self.diags) < 20:
            ln = self.line_of(pos)
            start = self.s.rfind("\n", 0, pos) + 1
            end = self.s.find("\n", pos)
            text = self.s[start:end if end >= 0 else self.n]
            self.diags.append(Diag(self.rel, ln, code, f"{msg} at line {ln}: {text.strip()[:200]}"))


class CSharpLexer(_Lexer):
    def escape(self, i: int, quote: str) -> int:
        """``i`` at the backslash; returns the index after the escape sequence."""
        s, n = self.s, self.n
        if i + 1 >= n:
            self.err(i, "bad-escape", "backslash at end of file")
            return n
        c = s[i + 1]
        if c in "'\"\\0abefnrtv":
            return i + 2
        if c == "x":
            j = i + 2
            while j < n and j < i + 6 and s[j] in _HEX:
                j += 1
            if j == i + 2:
                self.err(i, "bad-escape", "\\x without a hexadecimal digit")
            return j
        if c in "uU":
            need = 4 if c == "u" else 8
            digits = s[i + 2:i + 2 + need]
            if len(digits) != need or any(d not in _HEX for d in digits):
                self.err(i, "bad-escape", f"\\{c} needs {need} hexadecimal digits")
                return i + 2
            if c == "U" and int(digits, 16) > 0x10FFFF:
                self.err(i, "bad-escape", "\\U beyond U+10FFFF")
            return i + 2 + need
        self.err(i, "bad-escape", f"unrecognised escape sequence \\{c}")
        return i + 2

    def regular_string(self, i: int, interpolated: bool) -> int:
        """``i`` at the opening quote."""
        s, n = self.s, self.n
        start = i
        i += 1
        while i < n:
            c = s[i]
            if c == '"':
                i += 1
                if i < n and s[i] == '"':
                    self.err(i, "quote-after-string", "a string literal is immediately followed by another quote")
                return i
            if c in _CS_NEWLINES:
                self.err(start, "newline-in-string", "new-line character in a regular string literal")
                return i
            if c == "\\":
                i = self.escape(i, '"')
                continue
            if interpolated and c == "{":
                if i + 1 < n and s[i + 1] == "{":
                    i += 2
                    continue
                i = self.hole(i + 1, verbatim=False)
                continue
            if interpolated and c == "}":
                if i + 1 < n and s[i + 1] == "}":
                    i += 2
                    continue
                self.err(i, "lone-brace-in-interpolated-string", "unescaped '}' in an interpolated string")
                i += 1
                continue
            i += 1
        self.err(start, "unterminated-string", "unterminated string literal")
        return n

    def verbatim_string(self, i: int, interpolated: bool) -> int:
        s, n = self.s, self.n
        start = i
        i += 1
        while i < n:
            c = s[i]
            if c == '"':
                if i + 1 < n and s[i + 1] == '"':
                    i += 2
                    continue
                return i + 1
            if interpolated and c == "{":
                if i + 1 < n and s[i + 1] == "{":
                    i += 2
                    continue
                i = self.hole(i + 1, verbatim=True)
                continue
            if interpolated and c == "}":
                if i + 1 < n and s[i + 1] == "}":
                    i += 2
                    continue
                self.err(i, "lone-brace-in-interpolated-string", "unescaped '}' in an interpolated string")
            i += 1
        self.err(start, "unterminated-string", "unterminated verbatim string literal")
        return n

    def hole(self, i: int, verbatim: bool) -> int:
        """Interpolation hole; ``i`` after '{'. Returns the index after the closing '}'."""
        start = i
        i = self.code(i, in_hole=True, hole_verbatim=verbatim)
        s, n = self.s, self.n
        if i < n and s[i] == ":":
            # format specifier up to the closing brace
            while i < n and s[i] != "}":
                if s[i] == '"' or (s[i] in _CS_NEWLINES and not verbatim):
                    self.err(start, "unterminated-interpolation", "interpolation hole is not closed")
                    return i
                i += 1
        if i < n and s[i] == "}":
            return i + 1
        self.err(start, "unterminated-interpolation", "interpolation hole is not closed")
        return i

    def char_literal(self, i: int) -> int:
        s, n = self.s, self.n
        start = i
        i += 1
        if i >= n:
            self.err(start, "unterminated-char", "unterminated character literal")
            return n
        c = s[i]
        if c == "\\":
            i = self.escape(i, "'")
        elif c == "'" or c in _CS_NEWLINES:
            self.err(start, "bad-char-literal", "empty or broken character literal")
            return i + 1
        else:
            if ord(c) > 0xFFFF:
                self.err(start, "bad-char-literal", "character literal beyond the BMP")
            i += 1
        if i < n and s[i] == "'":
            return i + 1
        self.err(start, "bad-char-literal", "character literal with too many characters or unterminated")
        return i

    def code(self, i: int, in_hole: bool = False, hole_verbatim: bool = False) -> int:
        s, n = self.s, self.n
        stack = []  # type: List[Tuple[str, int]]
        line_start = not in_hole
        while i < n:
            c = s[i]
            if c in _CS_NEWLINES:
                if in_hole and not hole_verbatim:
                    return i  # the caller reports the unterminated hole
                line_start = True
                i += 1
                continue
            if c in " \t\f\v\ufeff" or unicodedata.category(c) == "Zs":
                i += 1
                continue
            if c == "#" and line_start:
                while i < n and s[i] not in _CS_NEWLINES:
                    i += 1
                continue
            line_start = False
            if c == "/" and i + 1 < n and s[i + 1] == "/":
                while i < n and s[i] not in _CS_NEWLINES:
                    i += 1
                continue
            if c == "/" and i + 1 < n and s[i + 1] == "*":
                j = s.find("*/", i + 2)
                if j < 0:
                    self.err(i, "unterminated-comment", "unterminated /* comment")
                    return n
                i = j + 2
                continue
            if c == '"':
                i = self.regular_string(i, False)
                continue
            if c == "@" and i + 1 < n and s[i + 1] == '"':
                i = self.verbatim_string(i + 1, False)
                continue
            if c == "$" and i + 1 < n and s[i + 1] == '"':
                i = self.regular_string(i + 1, True)
                continue
            if (s.startswith('$@"', i) or s.startswith('@$"', i)):
                i = self.verbatim_string(i + 2, True)
                continue
            if c == "'":
                i = self.char_literal(i)
                continue
            if c in _OPEN:
                stack.append((c, i))
                i += 1
                continue
            if c in _CLOSE:
                if not stack:
                    if in_hole and c == "}":
                        return i
                    self.err(i, "unbalanced-bracket", f"closing {c!r} without an opening bracket")
                    i += 1
                    continue
                o, pos = stack.pop()
                if _OPEN[o] != c:
                    self.err(i, "unbalanced-bracket", f"{c!r} closes {o!r} opened at line {self.line_of(pos)}")
                i += 1
                continue
            if in_hole and c == ":" and not stack:
                return i
            if c in _CS_OPERATORS or _is_ident_char(c):
                i += 1
                continue
            self.err(i, "unexpected-character", f"character {c!r} (U+{ord(c):04X}) outside of comments and literals")
            i += 1
        if not in_hole:
            for o, pos in stack[:3]:
                self.err(pos, "unbalanced-bracket", f"{o!r} is never closed")
        return i


def lex_csharp(src: str, rel: str) -> List[Diag]:
    lx = CSharpLexer(src, rel)
    lx.code(0)
    return lx.diags


_CS_DOC_LINE = re.compile(r"^[ \t]*///(?!/) ?(.*)$")


def csharp_doc_comments(src: str, rel: str) -> Tuple[List[Diag], int]:
    """Every maximal run of ``///`` lines must be a well-formed XML fragment. Returns (diags, blocks)."""
    diags = []  # type: List[Diag]
    blocks = 0
    lines = re.split(r"\r\n|[\r\n\u0085\u2028\u2029]", src)
    i = 0
    while i < len(lines):
        m = _CS_DOC_LINE.match(lines[i])
        if not m:
            i += 1
            continue
        start = i
        body = []  # type: List[str]
        while i < len(lines):
            m = _CS_DOC_LINE.match(lines[i])
            if not m:
                break
            body.append(m.group(1))
            i += 1
        blocks += 1
        text = "<root>\n" + "\n".join(body) + "\n</root>"
        try:
            ET.fromstring(text.encode("utf-8"))
        except ET.ParseError as e:
            ln = start + max(0, (e.position[0] - 2 if getattr(e, "position", None) else 0))
            bad = lines[ln] if 0 <= ln < len(lines) else ""
            code = re.sub(r": line \d+, column \d+", "", str(e)).strip().replace(" ", "-")[:50]
            if len(diags) < 20:
                diags.append(Diag(rel, ln + 1, "doc-comment-xml:" + code, f"{e} in the documentation comment at line {start + 1}: {bad.strip()[:200]}"))
    return diags, blocks


# ---------------------------------------------------------------------------
# Go lexer (The Go Programming Language Specification: "Lexical elements")
# ---------------------------------------------------------------------------

_GO_OPERATORS = set("+-*/%&|^<>=!:;,.~")


class GoLexer(_Lexer):
    def escape(self, i: int, quote: str) -> int:
        s, n = self.s, self.n
        if i + 1 >= n:
            self.err(i, "bad-escape", "backslash at end of file")
            return n
        c = s[i + 1]
        if c in "abfnrtv\\" or c == quote:
            return i + 2
        if c in "01234567":
            digits = s[i + 1:i + 4]
            if len(digits) != 3 or any(d not in "01234567" for d in digits) or int(digits, 8) > 255:
                self.err(i, "bad-escape", "octal escape needs three digits <= 377")
                return i + 2
            return i + 4
        if c in "xuU":
            need = {"x": 2, "u": 4, "U": 8}[c]
            digits = s[i + 2:i + 2 + need]
            if len(digits) != need or any(d not in _HEX for d in digits):
                self.err(i, "bad-escape", f"\\{c} needs exactly {need} hexadecimal digits")
                return i + 2
            if c != "x":
                v = int(digits, 16)
                if v > 0x10FFFF or 0xD800 <= v <= 0xDFFF:
                    self.err(i, "bad-escape", "escape is not a valid Unicode code point")
            return i + 2 + need
        self.err(i, "bad-escape", f"unknown escape sequence \\{c}")
        return i + 2

    def interpreted_string(self, i: int) -> int:
        s, n = self.s, self.n
        start = i
        i += 1
        while i < n:
            c = s[i]
            if c == '"':
                return i + 1
            if c == "\n":
                self.err(start, "newline-in-string", "new-line in an interpreted string literal")
                return i
            if c == "\\":
                i = self.escape(i, '"')
                continue
            i += 1
        self.err(start, "unterminated-string", "string literal not terminated")
        return n

    def rune(self, i: int) -> int:
        s, n = self.s, self.n
        start = i
        i += 1
        if i >= n:
            self.err(start, "bad-rune-literal", "rune literal not terminated")
            return n
        c = s[i]
        if c == "\\":
            i = self.escape(i, "'")
        elif c == "'" or c == "\n":
            self.err(start, "bad-rune-literal", "empty or broken rune literal")
            return i + 1
        else:
            i += 1
        if i < n and s[i] == "'":
            return i + 1
        self.err(start, "bad-rune-literal", "more than one character in a rune literal, or not terminated")
        return i

    def code(self) -> None:
        s, n = self.s, self.n
        i = 1 if s.startswith("\ufeff") else 0
        stack = []  # type: List[Tuple[str, int]]
        if "\x00" in s:
            self.err(s.index("\x00"), "nul-character", "NUL character in the source")
        while i < n:
            c = s[i]
            if c in " \t\r\n":
                i += 1
                continue
            if c == "/" and i + 1 < n and s[i + 1] == "/":
                j = s.find("\n", i)
                i = n if j < 0 else j
                continue
            if c == "/" and i + 1 < n and s[i + 1] == "*":
                j = s.find("*/", i + 2)
                if j < 0:
                    self.err(i, "unterminated-comment", "comment not terminated")
                    return
                i = j + 2
                continue
            if c == '"':
                i = self.interpreted_string(i)
                continue
            if c == "`":
                j = s.find("`", i + 1)
                if j < 0:
                    self.err(i, "unterminated-raw-string", "raw string literal not terminated")
                    return
                i = j + 1
                continue
            if c == "'":
                i = self.rune(i)
                continue
            if c in _OPEN:
                stack.append((c, i))
                i += 1
                continue
            if c in _CLOSE:
                if not stack:
                    self.err(i, "unbalanced-bracket", f"closing {c!r} without an opening bracket")
                else:
                    o, pos = stack.pop()
                    if _OPEN[o] != c:
                        self.err(i, "unbalanced-bracket", f"{c!r} closes {o!r} opened at line {self.line_of(pos)}")
                i += 1
                continue
            if c in _GO_OPERATORS or c == "_" or unicodedata.category(c) in ("Lu", "Ll", "Lt", "Lm", "Lo", "Nd"):
                i += 1
                continue
            self.err(i, "unexpected-character", f"character {c!r} (U+{ord(c):04X}) outside of comments and literals")
            i += 1
        for o, pos in stack[:3]:
            self.err(pos, "unbalanced-bracket", f"{o!r} is never closed")


def lex_go(src: str, rel: str) -> List[Diag]:
    lx = GoLexer(src, rel)
    lx.code()
    return lx.diags


def read_text_strict(path: pathlib.Path, rel: str) -> Tuple[Optional[str], List[Diag]]:
    data = path.read_bytes()
    try:
        return data.decode("utf-8"), []
    except UnicodeDecodeError as e:
        return None, [Diag(rel, 0, "not-utf8", str(e)[:200])]
