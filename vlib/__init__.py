"""Shared verification machinery.

``VERIF_REPO`` (default ``/repo``) selects the source tree under test; the default is
what every registered check uses. A different value is only used for sensitivity
experiments on scratch worktrees (mutants), never for evidence.
"""
import os
import sys

_repo = os.environ.get("VERIF_REPO", "/repo")
if _repo not in sys.path:
    sys.path.insert(0, _repo)
_pp = os.environ.get("PYTHONPATH", "")
if _repo not in _pp.split(os.pathsep):
    os.environ["PYTHONPATH"] = _repo + (os.pathsep + _pp if _pp else "")
