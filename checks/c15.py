"""C15 — Schema constraint inference equals the invariant conjunction."""
from __future__ import annotations

import re
import sys
from typing import Any, Dict, List, Optional, Tuple

from hypothesis import strategies as st

from vlib import mmgen, runner, sut

PID = "C15"
RULE = (
    "Hypothesis: meta-models whose invariants are drawn from the forms documented in infer_for_schema (len(self.p) OP k "
    "and k OP len(self.p) for OP in <,<=,==,>=,>, k in [-1,6]; f(self.p); f(self.p) and g(self.p); self.p in Set; with the "
    "two recognised None-guards on the same property; len(self) OP k / f(self) on constrained primitives) mixed with "
    "near-miss forms that must be ignored (!=, arithmetic, negation, disjunction, guard on a DIFFERENT property), spread "
    "over class DAGs/diamonds (tightening of inherited properties) and constrained-primitive chains. Oracle per value "
    "(property / list item) of every class: reference constraint = conjunction of the tagged recognised invariants of the "
    "class, its ancestors and the constrained-primitive chain (computed from the generator's tags, evaluated with Python "
    "re / len / set membership); for sampled values (all lengths 0..8, strings from and near the pattern languages, set "
    "members and outsiders) the inferred Constraints admit v  <=>  the reference admits v. If the recognised length "
    "bounds of a value are unsatisfiable over the naturals, infer_constraints_by_class must return errors (neither succeed "
    "nor raise); if they are satisfiable it must not report a length conflict. Non-trivial = value with >= 2 recognised "
    "constraints from >= 2 declaring types, or 1 recognised + 1 near-miss; distinct by (model text, class, property)."
)
ASSUMPTIONS = [
    "constraints apply to non-None values (the inference is documented to ignore optionality)",
    "only the models the front end accepts are evaluated",
    "an exception escaping infer_constraints_by_class is reported in its own bucket (it is also a C02 finding)",
    "'mutually unsatisfiable' = an explicit lower bound exceeds an explicit upper bound of the same value; a single bound "
    "below zero (len(x) < 0) is degenerate but not a mutual conflict, so no error report is demanded for it",
]


def opts() -> mmgen.Opts:
    return mmgen.Opts(max_classes=6, max_props=3, max_cps=4, invariants="schema", docs="none", p_diamond=0.7,
                      guard_other=0.15, max_consts=4, forward_bases=0.5, cp_chain=0.5, cp_weight=4)


@st.composite
def cases(draw: Any) -> Dict[str, Any]:
    spec = draw(mmgen.specs(opts()))
    return {"spec": spec.to_json()}


class Ref:
    """Reference constraint of one value: list of recognised tag dicts."""

    def __init__(self) -> None:
        self.len = []  # type: List[Tuple[Optional[int], Optional[int], str]]
        self.patterns = []  # type: List[str]
        self.sets = []  # type: List[Any]
        self.near = 0
        self.declaring = set()  # type: set

    def len_range(self) -> Tuple[int, Optional[int]]:
        lo = 0
        hi = None  # type: Optional[int]
        for mn, mx, _ in self.len:
            if mn is not None:
                lo = max(lo, mn)
            if mx is not None:
                hi = mx if hi is None else min(hi, mx)
        return lo, hi

    def unsat(self) -> bool:
        """*Mutually* unsatisfiable: an explicit lower bound exceeds an explicit upper bound."""
        mins = [mn for mn, _, _ in self.len if mn is not None]
        maxs = [mx for _, mx, _ in self.len if mx is not None]
        return bool(mins) and bool(maxs) and max(mins) > min(maxs)

    def degenerate(self) -> bool:
        """A single bound that no natural number satisfies (e.g. len(x) < 0): not a *mutual* conflict."""
        lo, hi = self.len_range()
        return hi is not None and lo > hi and not self.unsat()

    def admits(self, v: Any) -> bool:
        if self.len:
            lo, hi = self.len_range()
            n = len(v)
            if n < lo or (hi is not None and n > hi):
                return False
        for p in self.patterns:
            if re.match(p, v) is None:
                return False
        for s in self.sets:
            if v not in s:
                return False
        return True


def build_refs(spec: mmgen.Spec) -> Tuple[Dict[str, Ref], Dict[Tuple[str, str], Ref]]:
    """Reference constraints per constrained primitive (with chain) and per (class, property)."""
    fn_pat = {f.name: f.pattern for f in spec.fns if f.kind == "pattern"}
    const_sets = {}
    for k in spec.consts:
        if k.kind in ("set_str", "set_int"):
            const_sets[k.name] = set(_expand(spec, k))
        elif k.kind == "set_enum":
            const_sets[k.name] = set(_expand(spec, k))
    cp_refs = {}  # type: Dict[str, Ref]
    for cp in spec.cps:
        r = Ref()
        for k in [cp.name] + spec.cp_ancestors(cp.name):
            for inv in spec.cp(k).invs:
                t = inv.tags
                if not t.get("recognised"):
                    r.near += 1
                    continue
                r.declaring.add(k)
                if t["form"] == "len":
                    r.len.append((t["min"], t["max"], k))
                elif t["form"] == "pattern":
                    r.patterns += [fn_pat[f] for f in t["fns"]]
        cp_refs[cp.name] = r
    prop_refs = {}  # type: Dict[Tuple[str, str], Ref]
    for c in spec.classes:
        for p in spec.all_props(c.name):
            r = Ref()
            core = p.type.core
            if core.kind == "cp":
                base = cp_refs[core.name]
                r.len += base.len
                r.patterns += base.patterns
                r.near += base.near
                r.declaring |= base.declaring
            for k in [c.name] + spec.ancestors(c.name):
                for inv in spec.cls(k).invs:
                    t = inv.tags
                    if t.get("prop") != p.name:
                        continue
                    if not t.get("recognised"):
                        r.near += 1
                        continue
                    r.declaring.add(k)
                    if t["form"] == "len":
                        r.len.append((t["min"], t["max"], k))
                    elif t["form"] == "pattern":
                        r.patterns += [fn_pat[f] for f in t["fns"]]
                    elif t["form"] == "set":
                        r.sets.append(const_sets[t["set"]])
            prop_refs[(c.name, p.name)] = r
    return cp_refs, prop_refs


def _expand(spec: mmgen.Spec, k: Any) -> List[Any]:
    out = list(k.value)
    for s in k.superset_of:
        out += _expand(spec, next(x for x in spec.consts if x.name == s))
    return out


def inferred_admits(cons: Any, v: Any, kind: str) -> bool:
    """Does the repository's inferred ``Constraints`` object admit ``v``?"""
    if cons is None:
        return True
    if cons.len_constraint is not None and kind in ("str", "bytearray", "list"):
        n = len(v)
        if cons.len_constraint.min_value is not None and n < cons.len_constraint.min_value:
            return False
        if cons.len_constraint.max_value is not None and n > cons.len_constraint.max_value:
            return False
    if cons.patterns is not None and kind == "str":
        for pc in cons.patterns:
            if re.match(pc.pattern, v) is None:
                return False
    if cons.set_of_primitives is not None and kind in ("str", "int"):
        if v not in {lit.value for lit in cons.set_of_primitives.literals}:
            return False
    if cons.set_of_enumeration_literals is not None and kind == "enum":
        if v not in {lit.name for lit in cons.set_of_enumeration_literals.literals}:
            return False
    return True


def sample_values(spec: mmgen.Spec, kind: str, t: Any, ref: Ref) -> List[Any]:
    if kind == "str":
        vals = ["a" * n for n in range(0, 9)] + ["", " ", "A1", "x-1", "ab_1", "é", "\U0001F600b"]
        for f in spec.fns:
            vals += list(f.examples)
            vals += [e + "!" for e in f.examples[:2]] + [e[:-1] for e in f.examples[:2] if e]
        for k in spec.consts:
            if k.kind == "set_str":
                vals += list(k.value)
        return list(dict.fromkeys(vals))
    if kind == "bytearray":
        return [bytes(n) for n in range(0, 9)]
    if kind == "list":
        return [[0] * n for n in range(0, 9)]
    if kind == "int":
        vals = list(range(-1, 11))
        return vals
    if kind == "enum":
        return [n for n, _ in spec.enum(t.name).literals]
    return []


def kind_of(spec: mmgen.Spec, t: Any) -> str:
    if t.kind == "prim":
        return t.name
    if t.kind == "cp":
        return spec.cp_prim(t.name)
    return t.kind


def evaluate(case: Dict[str, Any], base: Any, ctx: Any = None) -> List[Tuple[str, str]]:
    fails = []  # type: List[Tuple[str, str]]
    spec = mmgen.Spec.from_json(case["spec"])
    text = mmgen.render(spec)
    try:
        symtab, _, err = sut.load_text(text, base)
    except BaseException:  # noqa
        if ctx is not None:
            ctx.exclude("front-end-crash")
        return []
    if err is not None:
        if ctx is not None:
            ctx.exclude("rejected-by-front-end")
        return []
    from aas_core_codegen import infer_for_schema, intermediate

    cp_refs, prop_refs = build_refs(spec)
    unsat = [k for k, r in prop_refs.items() if r.unsat()] + [("cp", k) for k, r in cp_refs.items() if r.unsat()]
    try:
        mapping, errors = infer_for_schema.infer_constraints_by_class(symtab)
    except BaseException as e:  # noqa
        b = runner.exc_bucket(e)
        kind = "unsatisfiable-bounds" if unsat else "satisfiable-bounds"
        if ctx is not None:
            ctx.case(bool(unsat), key=text, classes=[f"inference-raises:{kind}"])
        return [(f"inference-raises({kind}):{b}", f"unsat_values={unsat!r}\n{runner.exc_text(e)}\n{text[-1500:]}")]
    if errors is not None:
        msgs = " | ".join(e.message for e in errors)
        if ctx is not None:
            ctx.case(True, key=text, sample={"unsat": [list(u) for u in unsat], "errors": msgs[:300]},
                     classes=["inference-reports-errors", "unsat" if unsat else "sat"])
        degenerate = any(r.degenerate() for r in list(prop_refs.values()) + list(cp_refs.values()))
        if not unsat and not degenerate:
            # errors other than length conflicts (e.g. set/type mismatches) are legitimate for other reasons;
            # a *length conflict* on satisfiable bounds is a misreading
            if "conflicting invariants on the length" in msgs or "contradicts" in msgs:
                guarded_other = [i.tags.get("prop") for c in spec.classes for i in c.invs if i.tags.get("guard") == "other"]
                if any(g and re.search(rf"\b{re.escape(g)}\b", msgs) for g in guarded_other):
                    fails.append(("inferred-too-strict:guard-on-other-property-read-as-unconditional",
                                  f"conflict reported because a guarded-on-other-property bound was read as unconditional\n"
                                  f"errors={msgs[:600]}\n{text[-1500:]}"))
                else:
                    fails.append(("length-conflict-reported-for-satisfiable-bounds", f"errors={msgs[:600]}\n{text[-1500:]}"))
        return fails
    if unsat:
        if ctx is not None:
            ctx.case(True, key=text, classes=["unsat-accepted"])
        fails.append(("unsatisfiable-length-bounds-not-reported", f"unsat_values={unsat!r}\n{text[-1500:]}"))
        return fails
    assert mapping is not None
    cls_by_name = {c.name: c for c in symtab.classes}
    for c in spec.classes:
        ic = cls_by_name[c.name]
        cons_by_value = mapping[ic]
        for p in spec.all_props(c.name):
            iprop = ic.properties_by_name[p.name]
            anno = intermediate.beneath_optional(iprop.type_annotation)
            core = p.type.core
            ref = prop_refs[(c.name, p.name)]
            targets = [(core, anno, ref, p.name)]
            if core.kind == "list":
                # item values: constrained-primitive chain of the item type only
                item_t = core.item
                item_anno = anno.items
                item_ref = cp_refs[item_t.name] if item_t.kind == "cp" else Ref()
                targets.append((item_t, item_anno, item_ref, p.name + "[]"))
            for t, a, r, label in targets:
                kind = kind_of(spec, t)
                cons = cons_by_value.get(a, None)
                n_rec = len(r.len) + len(r.patterns) + len(r.sets)
                nt = (n_rec >= 2 and len(r.declaring) >= 2) or (n_rec >= 1 and r.near >= 1)
                if ctx is not None:
                    ctx.case(nt, key=[text, c.name, label],
                             sample={"class": c.name, "value": label, "len": [(a_, b_) for a_, b_, _ in r.len],
                                     "patterns": r.patterns, "sets": [sorted(map(str, s)) for s in r.sets],
                                     "near_misses": r.near, "declared_in": sorted(r.declaring)},
                             classes=[f"kind:{kind}", f"recognised:{min(n_rec, 3)}", f"near:{min(r.near, 2)}"])
                for v in sample_values(spec, kind, t, r):
                    exp = r.admits(v)
                    got = inferred_admits(cons, v, kind)
                    if exp != got:
                        which = "inferred-too-strict" if exp else "inferred-too-lax"
                        cause = _cause(spec, c.name, p.name, r, cons)
                        fails.append((f"{which}:{cause}",
                                      f"class={c.name} value={label} v={v!r} reference_admits={exp} inferred_admits={got}\n"
                                      f"reference: len={r.len} patterns={r.patterns} sets={[sorted(map(str, s)) for s in r.sets]}\n"
                                      f"inferred: {_show(cons)}\n{text[-1800:]}"))
                        break
    return fails


def _cause(spec: mmgen.Spec, cname: str, pname: str, r: Ref, cons: Any) -> str:
    """Coarse root-cause label: is there a guard-on-other-property near-miss on this value?"""
    for k in [cname] + spec.ancestors(cname):
        for inv in spec.cls(k).invs:
            if inv.tags.get("prop") == pname and inv.tags.get("guard") == "other":
                return "guard-on-other-property-read-as-unconditional"
    kinds = []
    if r.len or (cons is not None and cons.len_constraint is not None):
        kinds.append("len")
    if r.patterns or (cons is not None and cons.patterns is not None):
        kinds.append("pattern")
    if r.sets or (cons is not None and (cons.set_of_primitives is not None or cons.set_of_enumeration_literals is not None)):
        kinds.append("set")
    return "+".join(kinds) or "none"


def _show(cons: Any) -> str:
    if cons is None:
        return "None"
    out = []
    if cons.len_constraint is not None:
        out.append(f"len[{cons.len_constraint.min_value},{cons.len_constraint.max_value}]")
    if cons.patterns is not None:
        out.append(f"patterns={[p.pattern for p in cons.patterns]}")
    if cons.set_of_primitives is not None:
        out.append(f"set={[l.value for l in cons.set_of_primitives.literals]}")
    if cons.set_of_enumeration_literals is not None:
        out.append(f"enum_set={[l.name for l in cons.set_of_enumeration_literals.literals]}")
    return " ".join(out)


def shard(ctx: runner.Ctx) -> None:
    n = ctx.n(3_000, 300_000)

    def one(case: Dict[str, Any]) -> None:
        ctx.classes["models"] += 1
        for b, m in evaluate(case, ctx.scratch, ctx):
            ctx.fail(b, case, m)

    runner.hyp_run(cases(), one, n, ctx.seed)


def replay(case: Any) -> List[Tuple[str, str]]:
    if not isinstance(case, dict) or "spec" not in case:
        return []
    import shutil

    base = runner.make_scratch("c15-replay")
    try:
        return evaluate(case, base, None)
    except (KeyError, TypeError, AttributeError, IndexError, AssertionError, StopIteration, ValueError):
        return []
    finally:
        shutil.rmtree(base, ignore_errors=True)


def health(m: Any, tier: str) -> Any:
    models = m["classes"].get("models", 0)
    rej = m["excluded"].get("rejected-by-front-end", 0) + m["excluded"].get("front-end-crash", 0)
    if models and rej > 0.15 * models:
        return f"{rej} of {models} models not accepted"
    if m["nontrivial_n"] < 0.03 * max(1, m["evaluations"]):
        return "too few non-trivial values"
    return None


if __name__ == "__main__":
    runner.main(sys.modules[__name__])
