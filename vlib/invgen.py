"""Typed invariant generator for ``mmgen`` specs (general grammar + schema-recognised forms)."""
from __future__ import annotations

from typing import Any, Dict, List, Optional, Tuple

from hypothesis import strategies as st

from vlib.mmgen import CP, Cls, Const, Fn, Inv, Opts, Spec, TRef, _desc, pystr

CMP_OPS = ["<", "<=", "==", "!=", ">=", ">"]
LEN_OPS = ["<", "<=", "==", ">=", ">"]


class Path:
    """An access path with its static type and the optional prefixes needing a guard."""

    def __init__(self, text: str, type_: TRef, guards: Tuple[str, ...]) -> None:
        self.text = text
        self.type = type_
        self.guards = guards


def _prim_of(spec: Spec, t: TRef) -> Optional[str]:
    if t.kind == "prim":
        return t.name
    if t.kind == "cp":
        return spec.cp_prim(t.name)
    return None


def _paths(spec: Spec, root: str, props: List[Any], depth: int = 1) -> List[Path]:
    """All access paths from ``root`` (e.g. ``self``) up to the given nesting depth."""
    out = []  # type: List[Path]

    def walk(prefix: str, plist: List[Any], guards: Tuple[str, ...], d: int) -> None:
        for p in plist:
            text = f"{prefix}.{p.name}"
            t = p.type
            g = guards
            if t.optional:
                g = guards + (text,)
                t = t.core
            out.append(Path(text, t, g))
            if t.kind == "class" and d > 0:
                walk(text, spec.all_props(t.name), g, d - 1)

    walk(root, props, (), depth)
    return out


def _strip_outer(e: str) -> str:
    """Remove one pair of parentheses that encloses the whole expression."""
    if not (e.startswith("(") and e.endswith(")")):
        return e
    depth = 0
    for i, ch in enumerate(e):
        if ch == "(":
            depth += 1
        elif ch == ")":
            depth -= 1
            if depth == 0 and i != len(e) - 1:
                return e
    return e[1:-1]


class _Gen:
    def __init__(self, draw: Any, spec: Spec, opts: Opts) -> None:
        self.draw = draw
        self.spec = spec
        self.opts = opts
        self.var_counter = 0

    def pick(self, xs: List[Any]) -> Any:
        return xs[self.draw(st.integers(0, len(xs) - 1))]

    def chance(self, p: float) -> bool:
        return self.draw(st.floats(0, 1)) < p

    def arith(self, leaf: str, depth: int = 0) -> str:
        """Integer expression over ``leaf`` and small literals with + and -; nested operands are parenthesised
        the way a person would write them (right operands of - in particular)."""
        if depth >= 2 or self.draw(st.integers(0, 2)) == 0:
            return leaf if self.draw(st.booleans()) else str(self.draw(st.integers(0, 4)))
        op = self.pick(["+", "-", "-"])
        left = self.arith(leaf, depth + 1)
        right = self.arith(leaf, depth + 1)
        if any(c in right for c in "+-"):
            right = f"({right})"
        if any(c in left for c in "+-") and self.draw(st.booleans()):
            left = f"({left})"
        return f"{left} {op} {right}"

    # -- atomic conditions over a value expression ``e`` of non-optional type ``t`` --
    def atom(self, e: str, t: TRef, depth: int = 0) -> Optional[str]:
        spec = self.spec
        prim = _prim_of(spec, t)
        if prim == "bool":
            return self.pick([e, f"not {e}", f"({e} or not {e})"])
        if prim == "int":
            k = self.draw(st.integers(-2, 6))
            forms = [f"{e} {self.pick(CMP_OPS)} {k}", f"{k} {self.pick(CMP_OPS)} {e}"]
            if t.kind == "prim":
                # arithmetic is only defined on the primitive itself, not on constrained primitives
                forms += [f"{e} + 1 {self.pick(CMP_OPS)} {k}", f"{e} - {abs(k)} {self.pick(CMP_OPS)} 0"]
                forms += [f"{self.arith(e)} {self.pick(CMP_OPS)} {k}"] * 2
            int_sets = [c for c in spec.consts if c.kind == "set_int"]
            if int_sets:
                forms.append(f"{e} in {self.pick(int_sets).name}")
            int_consts = [c for c in spec.consts if c.kind == "int"]
            if int_consts:
                forms.append(f"{e} {self.pick(CMP_OPS)} {self.pick(int_consts).name}")
            tfns = [f for f in spec.fns if f.kind == "transpilable" and f.args[0][1].name == "int"]
            if tfns and t.kind == "prim":
                forms += [f"{self.pick(tfns).name}({e})"] * 2
            return self.pick(forms)
        if prim == "float":
            k = self.pick([0.0, 1.5, -2.25, 100.0])
            return self.pick([f"{e} {self.pick(CMP_OPS)} {k!r}", f"{k!r} {self.pick(CMP_OPS)} {e}"])
        if prim == "str":
            k = self.draw(st.integers(0, 5))
            forms = [f"len({e}) {self.pick(CMP_OPS)} {k}", f"{k} {self.pick(CMP_OPS)} len({e})",
                     f"{self.arith(f'len({e})')} {self.pick(CMP_OPS)} {k}",
                     f"{e} == {pystr(self.pick(['', 'a', 'ab', 'x-1']))}",
                     f"{e} != {pystr(self.pick(['', 'a', 'b']))}"]
            pfns = [f for f in spec.fns if f.kind in ("pattern",) and len(f.args) == 1]
            if pfns:
                forms += [f"{self.pick(pfns).name}({e})"] * 2
            ssets = [c for c in spec.consts if c.kind == "set_str"]
            if ssets:
                forms.append(f"{e} in {self.pick(ssets).name}")
            sconsts = [c for c in spec.consts if c.kind == "str"]
            if sconsts:
                forms.append(f"{e} == {self.pick(sconsts).name}")
            tfns = [f for f in spec.fns if f.kind == "transpilable" and f.args[0][1].name == "str"]
            if tfns and t.kind == "prim":
                forms += [f"{self.pick(tfns).name}({e})"] * 2
            return self.pick(forms)
        if prim == "bytearray":
            k = self.draw(st.integers(0, 5))
            return self.pick([f"len({e}) {self.pick(CMP_OPS)} {k}", f"{k} {self.pick(CMP_OPS)} len({e})"])
        if t.kind == "enum":
            en = spec.enum(t.name)
            forms = []
            if en.literals:
                lit = self.pick(en.literals)[0]
                forms += [f"{e} == {en.name}.{lit}", f"{e} != {en.name}.{lit}", f"{en.name}.{lit} == {e}"]
            esets = [c for c in spec.consts if c.kind == "set_enum" and c.enum == en.name]
            if esets:
                forms.append(f"{e} in {self.pick(esets).name}")
            return self.pick(forms) if forms else None
        if t.kind == "list":
            assert t.item is not None
            k = self.draw(st.integers(0, 4))
            forms = [f"len({e}) {self.pick(CMP_OPS)} {k}", f"{k} {self.pick(CMP_OPS)} len({e})"]
            if depth < 1:
                self.var_counter += 1
                v = self.pick(["item", "x", "elem"]) + (str(self.var_counter) if self.var_counter > 1 else "")
                inner = self.cond_on_value(v, t.item, depth + 1)
                if inner is not None:
                    q = self.pick(["all", "any"])
                    forms += [f"{q}({inner} for {v} in {e})"] * 2
                    iv = "i" if self.var_counter <= 1 else f"i{self.var_counter}"
                    inner2 = self.cond_on_value(f"{e}[{iv}]", t.item, depth + 1)
                    if inner2 is not None:
                        start = self.pick(["0", "1", "0"])
                        forms.append(f"{q}({inner2} for {iv} in range({start}, len({e})))")
            return self.pick(forms)
        if t.kind == "class":
            return None
        return None

    def cond_on_value(self, e: str, t: TRef, depth: int) -> Optional[str]:
        """Condition on a value of (non-optional) type ``t`` — descends into classes."""
        if t.kind == "class":
            paths = _paths(self.spec, e, self.spec.all_props(t.name), depth=0)
            paths = [p for p in paths if p.type.kind != "class"]
            if not paths:
                return None
            p = self.pick(paths)
            a = self.atom(p.text, p.type, depth)
            if a is None:
                return None
            return self.guard(a, p.guards)
        return self.atom(e, t, depth)

    def guard(self, cond: str, guards: Tuple[str, ...]) -> str:
        """Wrap ``cond`` so that every optional prefix is checked before use."""
        if not guards:
            return cond
        style = self.draw(st.integers(0, 4))
        gs = list(guards)
        if self.opts.unsafe_optional > 0 and self.chance(self.opts.unsafe_optional):
            # drop / misplace a guard on purpose (C07: must be rejected by inference)
            which = self.draw(st.integers(0, 3))
            if which == 3:
                # the None-checks sit under an ``or`` inside a conjunction of the antecedent: they guard nothing
                inner = " or ".join(f"{g} is not None" for g in gs)
                return f"not ((2 > 1) and ({inner} or 2 > 1)) or ({cond})"
            if which == 0:
                gs = gs[:-1]
                if not gs:
                    return cond
            elif which == 1:
                conj = " and ".join(f"{g} is not None" for g in gs)
                return f"({cond}) and ({conj})"  # guard after the use
            else:
                conj = " or ".join(f"{g} is not None" for g in gs)
                return f"not ({conj}) or ({cond})" if len(gs) > 1 else f"({gs[0]} is None) and ({cond})"
        if style == 0:
            conj = " and ".join(f"({g} is not None)" for g in gs)
            return f"not ({conj}) or ({cond})" if len(gs) > 1 else f"not ({gs[0]} is not None) or ({cond})"
        if style == 1:
            conj = " and ".join(f"{g} is not None" for g in gs)
            return f"({conj} and ({cond}))"
        if style == 2:
            out = cond
            for g in reversed(gs):
                out = f"({g} is None or ({out}))"
            return out
        if style == 4:
            # one flat disjunction with several ``is None`` operands
            return "(" + " or ".join([f"{g} is None" for g in gs] + [f"({cond})"]) + ")"
        out = cond
        for g in reversed(gs):
            out = f"(not ({g} is not None) or ({out}))"
        return out

    def condition(self, root: str, props: List[Any]) -> Optional[Tuple[str, Dict[str, Any]]]:
        paths = _paths(self.spec, root, props, depth=1)
        paths = [p for p in paths if p.type.kind != "class"]
        if not paths:
            return None
        n = self.draw(st.integers(1, 3))
        parts = []  # type: List[str]
        uses_opt = False
        used_guards = set()  # type: set
        for _ in range(n):
            p = self.pick(paths)
            # the inferrer narrows Optional types along and/or/implication: checking the same
            # path for None twice in one invariant is rejected ("expected an optional type")
            if any(g in used_guards for g in p.guards):
                continue
            a = self.atom(p.text, p.type)
            if a is None:
                continue
            if p.guards:
                uses_opt = True
                used_guards.update(p.guards)
            parts.append(self.guard(a, p.guards))
        if not parts:
            return None
        # comparison of a boolean property with a parenthesised boolean sub-expression (either side)
        bool_paths = [p for p in paths if not p.guards and _prim_of(self.spec, p.type) == "bool" and p.type.kind == "prim"]
        if bool_paths and self.chance(0.2):
            bp = self.pick(bool_paths)
            j = self.draw(st.integers(0, len(parts) - 1))
            op = self.pick(["==", "!=", "=="])
            parts[j] = f"{bp.text} {op} ({parts[j]})" if self.draw(st.booleans()) else f"({parts[j]}) {op} {bp.text}"
        expr = parts[0]
        for nxt in parts[1:]:
            c = self.draw(st.integers(0, 4))
            if c == 4 and " is None or " in expr and " is None or " in nxt:
                # one flat ``or`` with two ``is None`` checks on different expressions
                expr = f"{_strip_outer(expr)} or {_strip_outer(nxt)}"
                continue
            if c == 4:
                c = 1
            if c == 0:
                expr = f"({expr}) and ({nxt})"
            elif c == 1:
                expr = f"({expr}) or ({nxt})"
            elif c == 2:
                expr = f"not ({expr}) or ({nxt})"
            else:
                expr = f"not (({expr}) and not ({nxt}))"
        # sprinkle "is None"/"is not None" tests on optional properties
        opt_paths = [p for p in _paths(self.spec, root, props, depth=0)
                     if p.guards and len(p.guards) == 1 and p.guards[0] not in used_guards]
        if opt_paths and self.chance(0.25):
            p = self.pick(opt_paths)
            expr = self.pick([f"({p.text} is None) or ({expr})", f"({expr}) or ({p.text} is not None)",
                              f"not ({p.text} is None) or ({expr})"])
            uses_opt = True
            opt_paths = [q for q in opt_paths if q is not p]
        # None-tests as operands of a comparison: "both or neither" / "exactly one" of two optional properties
        if len(opt_paths) >= 2 and self.chance(0.2):
            i = self.draw(st.integers(0, len(opt_paths) - 1))
            j = self.draw(st.integers(0, len(opt_paths) - 2))
            j = j if j < i else j + 1
            p, q = opt_paths[i], opt_paths[j]
            if p.guards[0] != q.guards[0]:
                t1 = self.pick(["is None", "is not None"])
                t2 = self.pick(["is None", "is not None"])
                cmp_ = f"({p.text} {t1}) {self.pick(['==', '!=', '=='])} ({q.text} {t2})"
                expr = self.pick([f"({cmp_}) and ({expr})", f"({cmp_}) or ({expr})", f"({expr}) or ({cmp_})"])
                uses_opt = True
        return expr, {"form": "general", "uses_optional": uses_opt}


def add_invariants(draw: Any, spec: Spec, opts: Opts, used_descs: set) -> None:
    g = _Gen(draw, spec, opts)
    if opts.invariants == "schema":
        from vlib import schemainv

        schemainv.add_schema_invariants(draw, spec, opts, used_descs)
        return
    # transpilable verification functions (single primitive argument, body from the atom grammar)
    if opts.fns:
        taken = {f.name for f in spec.fns}
        for i in range(draw(st.integers(0, 2))):
            prim = g.pick(["int", "str", "int"])
            arg = g.pick(["value", "text", "that"])
            body = g.atom(arg, TRef("prim", prim))
            name = f"is_{g.pick(['fine', 'small', 'proper', 'good'])}_{prim}"
            if body is None or name in taken:
                continue
            taken.add(name)
            spec.fns.append(Fn(name, "transpilable", [(arg, TRef("prim", prim))], body=body))
    for c in spec.classes:
        props = spec.all_props(c.name)
        if not props:
            continue
        for _ in range(draw(st.integers(0, opts.max_invs))):
            g.var_counter = 0
            res = g.condition("self", props)
            if res is None:
                continue
            body, tags = res
            c.invs.append(Inv(body, _desc(draw, used_descs, opts.adversarial_text), tags))
    for cp in spec.cps:
        for _ in range(draw(st.integers(0, opts.max_invs))):
            g.var_counter = 0
            a = g.atom("self", TRef("cp", cp.name))
            if a is None:
                continue
            cp.invs.append(Inv(a, _desc(draw, used_descs, opts.adversarial_text), {"form": "general"}))
