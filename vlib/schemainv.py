"""
Invariants in the forms that schema-constraint inference recognises (and near-misses that
it must ignore), tagged so that oracles know the intended meaning. Written from the
documentation of ``infer_for_schema`` (match.py/_len.py/_pattern.py/_set.py).
"""
from __future__ import annotations

from typing import Any, Dict, List, Optional, Tuple

from hypothesis import strategies as st

from vlib.mmgen import Inv, Opts, Spec, TRef, _desc

LEN_OPS = ["<", "<=", "==", ">=", ">"]
FLIP = {"<": ">", "<=": ">=", "==": "==", ">=": "<=", ">": "<"}


def len_bounds(op: str, k: int) -> Tuple[Optional[int], Optional[int]]:
    """(min, max) inclusive bounds meant by ``len(x) op k``."""
    if op == "<":
        return None, k - 1
    if op == "<=":
        return None, k
    if op == "==":
        return k, k
    if op == ">=":
        return k, None
    if op == ">":
        return k + 1, None
    raise ValueError(op)


def _prim(spec: Spec, t: TRef) -> Optional[str]:
    if t.kind == "prim":
        return t.name
    if t.kind == "cp":
        return spec.cp_prim(t.name)
    return None


class _G:
    def __init__(self, draw: Any, spec: Spec, opts: Opts, used: set) -> None:
        self.draw = draw
        self.spec = spec
        self.opts = opts
        self.used = used
        # value key -> [lo, hi] accumulated recognised bounds (to keep most models satisfiable)
        self.range = {}  # type: Dict[str, List[Optional[int]]]

    def pick(self, xs: List[Any]) -> Any:
        return xs[self.draw(st.integers(0, len(xs) - 1))]

    def chance(self, p: float) -> bool:
        return self.draw(st.floats(0, 1)) < p

    def desc(self) -> str:
        return _desc(self.draw, self.used, self.opts.adversarial_text)

    def len_atom(self, key: str, expr: str, within: Tuple[Optional[int], Optional[int]] = (None, None)) -> Tuple[str, Dict[str, Any]]:
        """``within``: bounds the value is already subject to elsewhere (its constrained primitive); the new bound
        is mostly drawn so that the two stay jointly satisfiable."""
        lo, hi = self.range.get(key, [None, None])
        if within[0] is not None:
            lo = within[0] if lo is None else max(lo, within[0])
        if within[1] is not None:
            hi = within[1] if hi is None else min(hi, within[1])
        for _ in range(8):
            op = self.pick(LEN_OPS)
            k = self.draw(st.integers(-1, 6))
            mn, mx = len_bounds(op, k)
            nlo = mn if lo is None else (lo if mn is None else max(lo, mn))
            nhi = mx if hi is None else (hi if mx is None else min(hi, mx))
            eff_lo = 0 if nlo is None else max(0, nlo)
            if (nhi is None or eff_lo <= nhi) or self.chance(0.08):
                break
        self.range[key] = [nlo, nhi]
        if self.draw(st.booleans()):
            body = f"len({expr}) {op} {k}"
        else:
            body = f"{k} {FLIP[op]} len({expr})"
        return body, {"form": "len", "op": op, "k": k, "min": mn, "max": mx}

    def guard(self, body: str, prop: Any, tags: Dict[str, Any]) -> str:
        """Optional properties need the None-guard (two recognised spellings)."""
        if not prop.type.optional:
            return body
        tags["guard"] = "same"
        if self.draw(st.booleans()):
            return f"not (self.{prop.name} is not None) or ({body})"
        return f"(self.{prop.name} is None) or ({body})"


def add_schema_invariants(draw: Any, spec: Spec, opts: Opts, used: set) -> None:
    g = _G(draw, spec, opts, used)
    pfns = [f for f in spec.fns if f.kind == "pattern"]
    # ---- constrained primitives ----
    for cp in spec.cps:
        n = draw(st.integers(0, 2))
        for _ in range(n):
            forms = []
            if cp.prim in ("str", "bytearray"):
                forms += ["len", "len", "len_near"]
            if cp.prim == "str" and pfns:
                forms += ["pattern", "pattern", "pattern2"]
            if not forms:
                break
            f = g.pick(forms)
            if f == "len":
                body, tags = g.len_atom(f"cp:{cp.name}", "self")
                tags.update({"recognised": True, "on": "self"})
            elif f == "len_near":
                k = draw(st.integers(0, 4))
                body = g.pick([f"len(self) != {k}", f"len(self) + 1 > {k}", f"not (len(self) < {k})",
                               f"len(self) > {k} or len(self) == 0"])
                tags = {"form": "near-miss", "recognised": False, "on": "self"}
            elif f == "pattern":
                fn = g.pick(pfns)
                body = f"{fn.name}(self)"
                tags = {"form": "pattern", "fns": [fn.name], "recognised": True, "on": "self"}
            else:
                fn1, fn2 = g.pick(pfns), g.pick(pfns)
                body = f"{fn1.name}(self) and {fn2.name}(self)"
                tags = {"form": "pattern", "fns": [fn1.name, fn2.name], "recognised": True, "on": "self"}
            cp.invs.append(Inv(body, g.desc(), tags))
    # ---- classes ----
    for c in spec.classes:
        props = spec.all_props(c.name)
        own = {p.name for p in c.props}
        for p in props:
            # more invariants on own properties, fewer (tightenings) on inherited ones
            pr = 0.6 if p.name in own else (0.5 if len(c.bases) >= 1 else 0.25)
            t = p.type.core
            cp_len = t.kind == "cp" and any(
                inv.tags.get("form") == "len" for k in [t.name] + spec.cp_ancestors(t.name) for inv in spec.cp(k).invs)
            if cp_len:
                pr = max(pr, 0.8)
            tighten = False
            prim = _prim(spec, t)
            if p.name not in own and prim == "str" and len(pfns) >= 2 and any(
                    inv.tags.get("prop") == p.name and inv.tags.get("form") == "pattern"
                    for k in spec.ancestors(c.name) for inv in spec.cls(k).invs):
                pr = max(pr, 0.85)
            if not g.chance(pr):
                continue
            forms = []
            if prim in ("str", "bytearray") or t.kind == "list":
                forms += ["len", "len", "len", "len_near"]
            if cp_len:
                # the constrained primitive already bounds the length: a further bound declared by the class
                # has to be merged with it (the tighter one counts)
                forms += ["len"] * 4
            if prim == "str" and pfns:
                forms += ["pattern", "pattern", "pattern2", "pattern2", "pattern_near"]
                if len(pfns) >= 3:
                    forms += ["pattern3", "pattern3"]
            ssets = [k for k in spec.consts if (k.kind == "set_str" and prim == "str" and t.kind == "prim")
                     or (k.kind == "set_int" and prim == "int" and t.kind == "prim")
                     or (k.kind == "set_enum" and t.kind == "enum" and k.enum == t.name)]
            if ssets:
                forms += ["set", "set"]
            if p.name not in own and prim == "str" and len(pfns) >= 2 and any(
                    inv.tags.get("prop") == p.name and inv.tags.get("form") == "pattern"
                    for k in spec.ancestors(c.name) for inv in spec.cls(k).invs):
                # an ancestor already constrains the property by a pattern: several further patterns here
                # exercise the tightening of pattern lists (the part of the child's list the parent lacks)
                forms = ["pattern2"] * 3 + (["pattern3"] * 6 if len(pfns) >= 3 else []) + forms[:3]
                tighten = True
            if not forms:
                continue
            for _ in range(draw(st.integers(1, 2))):
                f = g.pick(forms)
                e = f"self.{p.name}"
                tags = {}  # type: Dict[str, Any]
                if f == "len":
                    # one range per property over the whole hierarchy keeps tightenings of different
                    # descendants (diamond arms) mutually satisfiable most of the time
                    within = (None, None)  # type: Tuple[Optional[int], Optional[int]]
                    if t.kind == "cp":
                        bounds = [(inv.tags.get("min"), inv.tags.get("max")) for k in [t.name] + spec.cp_ancestors(t.name)
                                  for inv in spec.cp(k).invs if inv.tags.get("form") == "len"]
                        mins = [a for a, _ in bounds if a is not None]
                        maxs = [b for _, b in bounds if b is not None]
                        within = (max(mins) if mins else None, min(maxs) if maxs else None)
                    body, tags = g.len_atom(f"prop:{p.name}", e, within)
                    tags["recognised"] = True
                elif f == "len_near":
                    k = draw(st.integers(0, 4))
                    body = g.pick([f"len({e}) != {k}", f"len({e}) + 1 > {k}", f"not (len({e}) < {k})",
                                   f"len({e}) > {k} or len({e}) == 0"])
                    tags = {"form": "near-miss", "recognised": False}
                elif f == "pattern":
                    fn = g.pick(pfns)
                    body = f"{fn.name}({e})"
                    tags = {"form": "pattern", "fns": [fn.name], "recognised": True}
                elif f == "pattern2":
                    fn1, fn2 = g.pick(pfns), g.pick(pfns)
                    body = f"{fn1.name}({e}) and {fn2.name}({e})"
                    tags = {"form": "pattern", "fns": [fn1.name, fn2.name], "recognised": True}
                elif f == "pattern3":
                    idx = draw(st.lists(st.integers(0, len(pfns) - 1), min_size=3, max_size=3, unique=True))
                    fs = [pfns[i] for i in idx]
                    body = " and ".join(f"{fn.name}({e})" for fn in fs)
                    tags = {"form": "pattern", "fns": [fn.name for fn in fs], "recognised": True}
                elif f == "pattern_near":
                    fn = g.pick(pfns)
                    body = g.pick([f"not {fn.name}({e})", f"{fn.name}({e}) or len({e}) == 0",
                                   f"not (len({e}) > 2) or {fn.name}({e})"])
                    tags = {"form": "near-miss", "recognised": False}
                else:
                    s = g.pick(ssets)
                    body = f"{e} in {s.name}"
                    tags = {"form": "set", "set": s.name, "recognised": True}
                tags["prop"] = p.name
                tags["cls"] = c.name
                others = [q for q in props if q.type.optional and q.name != p.name]
                if not p.type.optional and others and tags.get("recognised") and g.chance(opts.guard_other):
                    # conditional on a DIFFERENT optional property: not a constraint on p in general
                    q = g.pick(others)
                    tags["recognised"] = False
                    tags["form"] = "near-miss:guard-on-other-property"
                    tags["guard"] = "other"
                    if draw(st.booleans()):
                        body = f"not (self.{q.name} is not None) or ({body})"
                    else:
                        body = f"(self.{q.name} is None) or ({body})"
                else:
                    body = g.guard(body, p, tags)
                c.invs.append(Inv(body, g.desc(), tags))
