"""C26 — Yield-flow linearisation preserves behaviour."""
from __future__ import annotations

import pathlib
import re
import shutil
import subprocess
import sys
import tempfile
from typing import Any, Dict, Iterator, List, Optional, Sequence, Tuple

from hypothesis import strategies as st

from vlib import runner

PID = "C26"
RULE = (
    "Hypothesis draws a flow shape recursively: Command, Yield, IfTrue/IfFalse (body 1-3 nodes; or_else absent, "
    "[] or 1-3 nodes), For (body 0-3, with/without init), While (body 0-3); nesting depth <= 4, pruned to <= 25 "
    "nodes; commands/conditions are numbered uniquely in pre-order. Per flow 6 drawn condition-outcome lists "
    "(distinct, 1-24 bits, biased to True, consumed in evaluation order, False once exhausted) plus the empty list and 12 x True. Oracle: "
    "a structured interpreter walking the SHAPE (written from the class docs of yielding/flow.py) against a "
    "resumable state machine over linearize_to_subroutines(flow) with the semantics cpp/yielding.py emits "
    "(state = subroutine label; If with two targets always jumps, with one target jumps on the matching outcome "
    "else falls through; Jump; Yield stores the label of the next subroutine and suspends; the end of a "
    "subroutine falls into the next one; the end of the last one terminates); the traces of ('cmd',k) / "
    "('cond',k,outcome) / ('yield',) must be equal; structural invariants: first labels are 0..n-1, only the first "
    "statement of a subroutine is labelled, every target is an existing label, every If has a target. Compiled "
    "form (g++ -std=c++17 available -> feasible; quick: 1 translation unit of 50 flows per shard, thorough: 4): "
    "cpp.yielding.generate_execute_body(flow) with commands `ev(k);` and conditions `nx(k)` is compiled into a "
    "driver that resumes Execute() until the state is invalidated, under a step budget enforced on every "
    "`continue`, and its printed traces are compared with the same structured reference. Non-trivial = a loop "
    "containing a conditional that contains a Yield, or a trailing no-op (last top-level node is an If without "
    "else, a For or a While); distinct by (shape, bits)."
)
ASSUMPTIONS = [
    "structured semantics (trusted, 25 lines): IfTrue runs body on True else or_else; IfFalse runs body on False else "
    "or_else; For = init once, then (condition, body, iteration) while the condition holds; While = (condition, body)",
    "a condition is evaluated exactly where the structured program evaluates it; outcomes are positional (the k-th "
    "evaluation gets the k-th bit), so any re-ordering or duplicated evaluation shows up in the trace",
    "machine semantics are those of the switch emitted by cpp/yielding.py: case blocks fall through, `continue` "
    "re-dispatches on the state, `return` suspends; the initial state is 0",
    "a Yield that is the very last statement leaves an invalidated state; resuming is then not required "
    "(the emitter marks it 'Invalidate state'), i.e. final-yield and termination are not distinguished in the "
    "compiled form: trailing yields right before the end are dropped on both sides of the compiled comparison "
    "(the interpreted comparison keeps them)",
    "compiled form: reaching `default:` (std::logic_error) while running is NOT termination; the structured flow "
    "ends normally, so an Execute() that throws at the natural end of the flow is reported",
    "g++ is the trusted C++ semantics; the `continue` keyword is wrapped by a macro only to count steps",
]

# ---------------------------------------------------------------------------
# Shapes
#   ["c"] | ["y"] | ["it", body, or_else|None] | ["if", body, or_else|None]
#   | ["for", body, has_init] | ["w", body]
# ---------------------------------------------------------------------------


class BadShape(Exception):
    pass


def _check_shape(nodes: Any, depth: int = 0) -> int:
    if not isinstance(nodes, list) or depth > 8:
        raise BadShape("seq")
    total = 0
    for n in nodes:
        if not isinstance(n, list) or not n or n[0] not in ("c", "y", "it", "if", "for", "w"):
            raise BadShape("node")
        total += 1
        k = n[0]
        if k in ("c", "y"):
            if len(n) != 1:
                raise BadShape("leaf")
        elif k in ("it", "if"):
            if len(n) != 3 or not isinstance(n[1], list) or len(n[1]) < 1:
                raise BadShape("if")
            total += _check_shape(n[1], depth + 1)
            if n[2] is not None:
                total += _check_shape(n[2], depth + 1)
        elif k == "for":
            if len(n) != 3 or n[2] not in (0, 1, True, False):
                raise BadShape("for")
            total += _check_shape(n[1], depth + 1)
        else:
            if len(n) != 2:
                raise BadShape("while")
            total += _check_shape(n[1], depth + 1)
    if total > 200:
        raise BadShape("too large")
    return total


class Numbering:
    """Pre-order numbering shared by the shape walker and the flow builder."""

    def __init__(self) -> None:
        self.next = 0

    def take(self) -> int:
        self.next += 1
        return self.next - 1


def build_flow(shape: Any) -> List[Any]:
    """Shape -> yielding.flow nodes; commands are ``ev(k);``, conditions ``nx(k)``."""
    from aas_core_codegen.yielding import flow as yf

    num = Numbering()

    def seq(nodes: Any) -> List[Any]:
        return [node(n) for n in nodes]

    def node(n: Any) -> Any:
        k = n[0]
        if k == "c":
            return yf.command_from_text(f"ev({num.take()});")
        if k == "y":
            return yf.Yield()
        if k in ("it", "if"):
            cond = f"nx({num.take()})"
            body = seq(n[1])
            or_else = seq(n[2]) if n[2] is not None else None
            cls = yf.IfTrue if k == "it" else yf.IfFalse
            return cls(cond, body, or_else)
        if k == "for":
            init = f"ev({num.take()});" if n[2] else None
            cond = f"nx({num.take()})"
            iteration = f"ev({num.take()});"
            body = seq(n[1])
            return yf.For(cond, iteration, body, init=init)
        cond = f"nx({num.take()})"
        return yf.While(cond, seq(n[1]))

    return seq(shape)


Event = Tuple[Any, ...]


def run_structured(shape: Any, bits: Sequence[int]) -> List[Event]:
    """Reference: walk the shape (NOT the repository's objects)."""
    trace = []  # type: List[Event]
    it = iter(bits)  # type: Iterator[int]
    num = Numbering()

    def cond(k: int) -> bool:
        b = bool(next(it, 0))
        trace.append(("cond", k, b))
        return b

    # The numbering must be static (pre-order over the shape), not dynamic, so number first.
    def number(nodes: Any) -> List[Any]:
        out = []
        for n in nodes:
            k = n[0]
            if k == "c":
                out.append(("c", num.take()))
            elif k == "y":
                out.append(("y",))
            elif k in ("it", "if"):
                c = num.take()
                body = number(n[1])
                or_else = number(n[2]) if n[2] is not None else None
                out.append((k, c, body, or_else))
            elif k == "for":
                init = num.take() if n[2] else None
                c = num.take()
                itr = num.take()
                out.append(("for", init, c, itr, number(n[1])))
            else:
                c = num.take()
                out.append(("w", c, number(n[1])))
        return out

    def seq(nodes: Any) -> None:
        for n in nodes:
            k = n[0]
            if k == "c":
                trace.append(("cmd", n[1]))
            elif k == "y":
                trace.append(("yield",))
            elif k == "it":
                if cond(n[1]):
                    seq(n[2])
                elif n[3] is not None:
                    seq(n[3])
            elif k == "if":
                if not cond(n[1]):
                    seq(n[2])
                elif n[3] is not None:
                    seq(n[3])
            elif k == "for":
                if n[1] is not None:
                    trace.append(("cmd", n[1]))
                while cond(n[2]):
                    seq(n[4])
                    trace.append(("cmd", n[3]))
            else:
                while cond(n[1]):
                    seq(n[2])

    seq(number(shape))
    return trace


_EV_RE = re.compile(r"ev\((\d+)\);")
_NX_RE = re.compile(r"nx\((\d+)\)")


def structural_problems(subs: Any) -> List[Tuple[str, str]]:
    from aas_core_codegen.yielding import linear as yl

    out = []  # type: List[Tuple[str, str]]
    labels = []
    for sub in subs:
        if len(sub) == 0:
            out.append(("struct-empty-subroutine", "an empty subroutine"))
            continue
        labels.append(sub[0].label)
        for stmt in list(sub)[1:]:
            if stmt.label is not None:
                out.append(("struct-label-inside-subroutine", f"label {stmt.label} inside subroutine {sub[0].label}"))
    if labels != list(range(len(labels))):
        out.append(("struct-labels-not-consecutive-from-0", f"labels={labels!r}"))
    lab = set(labels)
    for sub in subs:
        for stmt in sub:
            if isinstance(stmt, yl.If):
                if stmt.on_true is None and stmt.on_false is None:
                    out.append(("struct-if-without-target", f"in subroutine {sub[0].label}"))
                for t in (stmt.on_true, stmt.on_false):
                    if t is not None and t not in lab:
                        out.append(("struct-target-missing", f"If target {t} not in {sorted(lab)!r}"))
            elif isinstance(stmt, yl.Jump):
                if stmt.target not in lab:
                    out.append(("struct-target-missing", f"Jump target {stmt.target} not in {sorted(lab)!r}"))
    return out


def run_machine(subs: Any, bits: Sequence[int], budget: int) -> Tuple[List[Event], str]:
    """Resumable state machine with the semantics of the emitted C++ switch."""
    from aas_core_codegen.yielding import linear as yl

    trace = []  # type: List[Event]
    it = iter(bits)  # type: Iterator[int]
    n = len(subs)
    if n == 0:
        return trace, "done"
    index = {}  # type: Dict[Any, int]
    for i, sub in enumerate(subs):
        index.setdefault(sub[0].label, i)
    state = 0
    steps = 0
    while True:  # one iteration = one call of Execute()
        suspended = False
        while True:  # while (true) { switch (state) {
            steps += 1
            if steps > budget:
                return trace, "budget"
            if state not in index:
                return trace, f"invalid-state-{state}"
            i = index[state]
            action = None  # type: Optional[str]
            while i < n and action is None:
                sub = subs[i]
                for stmt in sub:
                    steps += 1
                    if isinstance(stmt, yl.Command):
                        mt = _EV_RE.fullmatch(stmt.code)
                        trace.append(("cmd", int(mt.group(1)) if mt else stmt.code))
                    elif isinstance(stmt, yl.If):
                        mt = _NX_RE.fullmatch(stmt.condition)
                        b = bool(next(it, 0))
                        trace.append(("cond", int(mt.group(1)) if mt else stmt.condition, b))
                        if stmt.on_true is not None and stmt.on_false is not None:
                            state = stmt.on_true if b else stmt.on_false
                            action = "continue"
                            break
                        if stmt.on_true is not None:
                            if b:
                                state = stmt.on_true
                                action = "continue"
                                break
                        elif stmt.on_false is not None:
                            if not b:
                                state = stmt.on_false
                                action = "continue"
                                break
                        else:
                            return trace, "if-without-target"
                    elif isinstance(stmt, yl.Jump):
                        state = stmt.target
                        action = "continue"
                        break
                    elif isinstance(stmt, yl.Yield):
                        trace.append(("yield",))
                        state = subs[i + 1][0].label if i + 1 < n else sub[0].label + 1
                        action = "return"
                        break
                    elif isinstance(stmt, yl.Noop):
                        pass
                    else:
                        return trace, f"unknown-statement-{type(stmt).__name__}"
                else:
                    i += 1  # the case block falls through into the next one
            if action is None:
                return trace, "done"  # ran off the end of the last subroutine
            if action == "return":
                suspended = True
                break
        if suspended and state not in index:
            # yielded from the last subroutine: nothing is left to resume
            return trace, "done"


def _fmt(trace: Sequence[Event]) -> str:
    out = []
    for e in trace:
        if e[0] == "cmd":
            out.append(f"c{e[1]}")
        elif e[0] == "cond":
            out.append(f"k{e[1]}{'T' if e[2] else 'F'}")
        else:
            out.append("Y")
    return " ".join(out)


def _first_diff(a: Sequence[Event], b: Sequence[Event]) -> int:
    i = 0
    while i < len(a) and i < len(b) and a[i] == b[i]:
        i += 1
    return i


def dump_subs(subs: Any) -> str:
    from aas_core_codegen.yielding import linear as yl

    try:
        return "\n---\n".join(yl.dump(sub) for sub in subs)
    except Exception as e:  # noqa
        return f"<dump failed: {e}>"


def linearize(shape: Any) -> Tuple[Any, Optional[Tuple[str, str]]]:
    from aas_core_codegen.yielding import linear as yl

    try:
        flow = build_flow(shape)
    except Exception as e:  # noqa: constructor preconditions
        return None, (f"build-raises-{runner.exc_bucket(e)}", runner.exc_text(e))
    try:
        return yl.linearize_to_subroutines(flow), None
    except BaseException as e:  # noqa
        b = runner.exc_bucket(e)
        if b.endswith("@?"):  # raised by a contract of the entry point itself
            b = b[:-1] + "yielding/linear.py:linearize_to_subroutines"
        return None, (f"raises-{b}", runner.exc_text(e))


def evaluate_flow(shape: Any, bit_lists: Sequence[Sequence[int]]) -> List[Tuple[str, str, Sequence[int]]]:
    """-> [(bucket, message, bits)] for one flow and several outcome sequences."""
    subs, err = linearize(shape)
    if err is not None:
        return [(err[0], err[1], [])]
    fails = []  # type: List[Tuple[str, str, Sequence[int]]]
    for b, msg in structural_problems(subs):
        fails.append((b, msg + "\n" + dump_subs(subs), []))
    for bits in bit_lists:
        ref = run_structured(shape, bits)
        budget = 50 * (len(ref) + 10)
        try:
            got, how = run_machine(subs, bits, budget)
        except Exception as e:  # noqa: malformed statements
            fails.append((f"machine-cannot-run-{type(e).__name__}", runner.exc_text(e), bits))
            continue
        if got != ref or how != "done":
            i = _first_diff(got, ref)
            if how == "budget":
                bucket = "machine-does-not-terminate"
            elif how.startswith("invalid-state"):
                bucket = "machine-reaches-invalid-state"
            elif how != "done":
                bucket = "machine-" + how
            elif len(got) < len(ref) and i == len(got):
                bucket = "trace-truncated"
            elif len(got) > len(ref) and i == len(ref):
                bucket = "trace-too-long"
            else:
                bucket = "trace-differs"
            fails.append(
                (bucket,
                 f"bits={list(bits)!r} end={how} first difference at event {i}\n"
                 f"structured: {_fmt(ref)}\nmachine   : {_fmt(got)}\n{dump_subs(subs)}",
                 bits)
            )
    return fails


# ---------------------------------------------------------------------------
# Compiled form
# ---------------------------------------------------------------------------

_PRELUDE = r"""
#include <cstdio>
#include <stdexcept>
#include <string>
#include <vector>

namespace common {
static std::string Concat(const std::string& a, const std::string& b) { return a + b; }
}  // namespace common

struct Budget {};
static std::vector<int> T;
static const int* BITS = nullptr;
static int NB = 0;
static int BI = 0;
static long STEPS = 0;
static const long LIMIT = 20000;

static void ev(int k) {
  if (++STEPS > LIMIT) throw Budget();
  T.push_back(k * 4);
}
static bool nx(int k) {
  if (++STEPS > LIMIT) throw Budget();
  bool b = (BI < NB) ? (BITS[BI++] != 0) : false;
  T.push_back(k * 4 + 1 + (b ? 1 : 0));
  return b;
}
// every back edge of the emitted loop goes through `continue`
#define continue if (++STEPS > LIMIT) throw Budget(); else continue

typedef void (*Fn)(int&);

static void drive(int id, int seq, Fn fn, int n, const int* bits, int nb) {
  T.clear(); BITS = bits; NB = nb; BI = 0; STEPS = 0;
  int state_ = 0;
  while (true) {
    try {
      fn(state_);
    } catch (const Budget&) {
      T.push_back(-2); break;
    } catch (const std::logic_error&) {
      T.push_back(-3); break;
    }
    if (state_ < 0 || state_ >= n) { T.push_back(-1); break; }
    if (++STEPS > LIMIT) { T.push_back(-2); break; }
    T.push_back(3);
  }
  std::printf("%d %d", id, seq);
  for (size_t i = 0; i < T.size(); ++i) std::printf(" %d", T[i]);
  std::printf("\n");
}
"""


def _ref_ints(ref: Sequence[Event]) -> List[int]:
    out = []
    for e in ref:
        if e[0] == "cmd":
            out.append(e[1] * 4)
        elif e[0] == "cond":
            out.append(e[1] * 4 + 1 + (1 if e[2] else 0))
        else:
            out.append(3)
    while out and out[-1] == 3:
        out.pop()  # a final yield invalidates the state like termination does
    out.append(-1)
    return out


def _drop_final_yield(xs: Sequence[int]) -> List[int]:
    out = list(xs)
    while out and out[-1] == 3:
        out.pop()
    return out


def _fmt_ints(xs: Sequence[int]) -> str:
    out = []
    for x in xs:
        if x == 3:
            out.append("Y")
        elif x == -1:
            out.append("<end>")
        elif x == -2:
            out.append("<BUDGET>")
        elif x == -3:
            out.append("<std::logic_error>")
        elif x % 4 == 0:
            out.append(f"c{x // 4}")
        else:
            out.append(f"k{x // 4}{'T' if x % 4 == 2 else 'F'}")
    return " ".join(out)


def have_gxx() -> bool:
    return shutil.which("g++") is not None


def compiled_unit(
    items: Sequence[Tuple[Any, Sequence[Sequence[int]]]], workdir: pathlib.Path
) -> List[Tuple[str, str, Any, Sequence[int]]]:
    """Compile and run one translation unit; -> [(bucket, message, shape, bits)]."""
    from aas_core_codegen.common import Identifier
    from aas_core_codegen.cpp import yielding as cy
    from aas_core_codegen.yielding import linear as yl

    fails = []  # type: List[Tuple[str, str, Any, Sequence[int]]]
    parts = [_PRELUDE]
    calls = []
    kept = {}  # type: Dict[int, Tuple[Any, Sequence[Sequence[int]], str]]
    for fid, (shape, bit_lists) in enumerate(items):
        try:
            flow = build_flow(shape)
            body = cy.generate_execute_body(flow=flow, state_member=Identifier("state_"))
            n = len(yl.linearize_to_subroutines(build_flow(shape)))
        except BaseException as e:  # noqa
            fails.append((f"compiled-generate-raises-{runner.exc_bucket(e)}", runner.exc_text(e), shape, []))
            continue
        kept[fid] = (shape, bit_lists, body)
        indented = "\n".join(("  " + ln if ln else ln) for ln in body.split("\n"))
        parts.append(f"static void f{fid}(int& state_) {{\n{indented}\n}}\n")
        for sid, bits in enumerate(bit_lists):
            arr = ", ".join(str(int(bool(b))) for b in bits) or "0"
            parts.append(f"static const int b{fid}_{sid}[] = {{{arr}}};")
            calls.append(f"  drive({fid}, {sid}, f{fid}, {n}, b{fid}_{sid}, {len(bits)});")
    parts.append("int main() {\n" + "\n".join(calls) + "\n  return 0;\n}\n")
    workdir.mkdir(parents=True, exist_ok=True)
    src = workdir / "unit.cpp"
    exe = workdir / "unit"
    src.write_text("\n".join(parts), encoding="utf-8")
    cp = subprocess.run(
        ["g++", "-std=c++17", "-O0", "-w", "-o", str(exe), str(src)],
        capture_output=True, text=True,
    )
    if cp.returncode != 0:
        # find a flow to blame: the first function mentioned in the diagnostics
        mt = re.search(r"In function 'void f(\d+)\(int&\)'", cp.stderr)
        fid = int(mt.group(1)) if mt and int(mt.group(1)) in kept else (sorted(kept)[0] if kept else None)
        shape = kept[fid][0] if fid is not None else []
        fails.append(("compiled-does-not-compile", cp.stderr[:3000], shape, []))
        return fails
    rp = subprocess.run([str(exe)], capture_output=True, text=True)
    if rp.returncode != 0:
        raise runner.HarnessError(f"compiled unit crashed rc={rp.returncode}: {rp.stderr[:500]}")
    seen = 0
    for line in rp.stdout.splitlines():
        xs = [int(t) for t in line.split()]
        fid, sid, got = xs[0], xs[1], xs[2:]
        shape, bit_lists, body = kept[fid]
        bits = bit_lists[sid]
        want = _ref_ints(run_structured(shape, bits))
        seen += 1
        # a yield immediately before the end is not distinguishable from termination (see ASSUMPTIONS)
        if got and got[-1] == -1:
            got = _drop_final_yield(got[:-1]) + [-1]
        if got != want:
            if got and got[-1] == -3 and _drop_final_yield(got[:-1]) == want[:-1]:
                # all events are right; the natural end of the flow runs into `default:`
                bucket = "compiled:execute-throws-logic_error-at-end-of-flow"
            elif got and got[-1] == -3:
                bucket = "compiled:execute-throws-logic_error"
            elif got and got[-1] == -2:
                bucket = "compiled:does-not-terminate"
            else:
                bucket = "compiled:trace-differs"
            fails.append(
                (bucket,
                 f"bits={list(bits)!r}\nstructured: {_fmt_ints(want)}\ncompiled  : {_fmt_ints(got)}\n{body}",
                 shape, bits)
            )
    if seen != sum(len(kept[f][1]) for f in kept):
        raise runner.HarnessError("compiled unit printed fewer lines than expected")
    return fails


# ---------------------------------------------------------------------------
# Generator
# ---------------------------------------------------------------------------


def _node(depth: int) -> Any:
    leaf = st.sampled_from([["c"], ["c"], ["y"]])
    if depth >= 4:
        return leaf
    body0 = st.lists(st.deferred(lambda: _node(depth + 1)), min_size=0, max_size=3)
    body1 = st.lists(st.deferred(lambda: _node(depth + 1)), min_size=1, max_size=3)
    or_else = st.one_of(st.none(), st.none(), st.just([]), body1)
    compound = st.one_of(
        st.builds(lambda b, e: ["it", b, e], body1, or_else),
        st.builds(lambda b, e: ["if", b, e], body1, or_else),
        st.builds(lambda b, i: ["for", b, i], body0, st.integers(0, 1)),
        st.builds(lambda b: ["w", b], body0),
    )
    # fewer compound nodes the deeper we are: keeps most flows at 6-25 nodes before pruning
    return st.one_of(*([compound] * 2 + [leaf] * (1 + depth)))


def prune(shape: Any, limit: int = 25) -> Any:
    """Cut the shape in pre-order to at most ``limit`` nodes (an If keeps a non-empty body)."""
    left = [limit]

    def seq(nodes: Any, at_least_one: bool) -> List[Any]:
        out = []  # type: List[Any]
        for n in nodes:
            if left[0] <= 0 and not (at_least_one and not out):
                break
            left[0] -= 1
            k = n[0]
            if k in ("c", "y"):
                out.append([k])
            elif k in ("it", "if"):
                body = seq(n[1], True)
                or_else = seq(n[2], False) if n[2] is not None else None
                out.append([k, body, or_else])
            elif k == "for":
                out.append(["for", seq(n[1], False), n[2]])
            else:
                out.append(["w", seq(n[1], False)])
        return out

    return seq(shape, False)


_bits = st.one_of(
    st.lists(st.integers(0, 1), min_size=1, max_size=24),
    st.lists(st.sampled_from([1, 1, 1, 0]), min_size=4, max_size=24),
    st.lists(st.sampled_from([1, 1, 1, 0]), min_size=8, max_size=24),
)
STRATEGY = st.tuples(
    st.lists(_node(0), min_size=1, max_size=4).map(prune),
    st.lists(_bits, min_size=6, max_size=6, unique_by=tuple),
)


def features(shape: Any) -> Tuple[bool, List[str]]:
    cls = set()
    maxdepth = [0]
    count = [0]

    def seq(nodes: Any, depth: int, in_loop: bool, in_cond_in_loop: bool) -> None:
        maxdepth[0] = max(maxdepth[0], depth)
        for n in nodes:
            count[0] += 1
            k = n[0]
            if k == "y":
                cls.add("yield")
                if in_loop:
                    cls.add("yield-in-loop")
                if in_cond_in_loop:
                    cls.add("NT:yield-in-conditional-in-loop")
            elif k in ("it", "if"):
                cls.add("IfTrue" if k == "it" else "IfFalse")
                if n[2] is None:
                    cls.add("if-without-else")
                elif n[2] == []:
                    cls.add("if-with-empty-else")
                else:
                    cls.add("if-with-else")
                seq(n[1], depth + 1, in_loop, in_loop)
                if n[2]:
                    seq(n[2], depth + 1, in_loop, in_loop)
            elif k == "for":
                cls.add("For+init" if n[2] else "For")
                if not n[1]:
                    cls.add("loop-with-empty-body")
                if in_loop:
                    cls.add("nested-loop")
                seq(n[1], depth + 1, True, in_cond_in_loop)
            elif k == "w":
                cls.add("While")
                if not n[1]:
                    cls.add("loop-with-empty-body")
                if in_loop:
                    cls.add("nested-loop")
                seq(n[1], depth + 1, True, in_cond_in_loop)

    seq(shape, 1, False, False)
    if shape:
        last = shape[-1]
        if (last[0] in ("it", "if") and last[2] is None) or last[0] in ("for", "w"):
            cls.add("NT:trailing-noop")
        elif last[0] in ("it", "if"):
            cls.add("trailing-noop-after-else")
        if last[0] == "y":
            cls.add("ends-with-yield")
    else:
        cls.add("empty-flow")
    nt = any(c.startswith("NT:") for c in cls)
    out = sorted(cls)
    out.append(f"depth={maxdepth[0]}")
    out.append("nodes:" + ("0-5" if count[0] <= 5 else "6-12" if count[0] <= 12 else "13-25"))
    return nt, out


# ---------------------------------------------------------------------------
# Entry points
# ---------------------------------------------------------------------------

CORNERS = [
    [],
    [["c"]],
    [["y"]],
    [["y"], ["y"]],
    [["it", [["c"]], None]],
    [["it", [["y"]], []]],
    [["if", [["c"]], [["y"]]]],
    [["w", []]],
    [["for", [], 0]],
    [["for", [["it", [["y"]], None]], 1], ["c"]],
    [["w", [["w", [["if", [["y"]], [["c"]]]]]]]],
    [["it", [["it", [["c"]], []]], None], ["y"]],
]

_EXTRA_BITS = [[], [1] * 12]


def _case_json(shape: Any, bits: Sequence[int], compiled: bool = False) -> Dict[str, Any]:
    c = {"flow": shape, "bits": [int(bool(b)) for b in bits]}  # type: Dict[str, Any]
    if compiled:
        c["compiled"] = 1
    return c


def shard(ctx: runner.Ctx) -> None:
    n_cases = ctx.n(60_000, 5_000_000)
    per_flow = 8
    n_flows = max(1, n_cases // per_flow)
    units = 1 if ctx.quick else 4
    per_unit = 50
    scratch = pathlib.Path(str(ctx.scratch))  # type: ignore
    gxx = have_gxx()
    if not gxx:
        ctx.notes["compiled_skipped_no_gxx"] = 1
    for_compile = []  # type: List[Tuple[Any, List[List[int]]]]
    seen_shapes = set()  # type: set

    def one_flow(shape: Any, bit_lists: List[List[int]]) -> None:
        nt, cls = features(shape)
        all_bits = [list(b) for b in bit_lists] + _EXTRA_BITS
        fails = evaluate_flow(shape, all_bits)
        for bits in all_bits:
            ref_len = len(run_structured(shape, bits))
            c2 = list(cls)
            c2.append("trace:" + ("0" if ref_len == 0 else "1-9" if ref_len < 10 else "10-49" if ref_len < 50 else "50+"))
            ctx.case(nt, key=[shape, bits], sample=_case_json(shape, bits) if len(repr(shape)) < 400 else None,
                     classes=c2)
        for b, msg, bits in fails:
            ctx.fail(b, _case_json(shape, bits), msg)
        if gxx and len(for_compile) < units * per_unit and (nt or len(for_compile) % 5 == 4):
            h = runner.jhash(shape)
            if h not in seen_shapes:
                seen_shapes.add(h)
                for_compile.append((shape, all_bits))

    def one(case: Any) -> None:
        shape, bit_lists = case
        one_flow(shape, bit_lists)

    runner.hyp_run(STRATEGY, one, n_flows, ctx.seed)
    if ctx.shard == 0:
        for shape in CORNERS:
            one_flow(shape, [[1, 0, 1, 1, 0], [0, 1], [1, 1, 0, 1, 0, 1, 1]])
        if gxx:
            for_compile.extend((s, [[1, 0, 1, 1, 0], [0, 1], [1, 1, 1]] + _EXTRA_BITS) for s in CORNERS)

    # compiled tier
    if gxx:
        u = 0
        for start in range(0, len(for_compile), per_unit):
            items = for_compile[start:start + per_unit]
            if not items:
                break
            fails4 = compiled_unit(items, scratch / f"unit{u}")
            u += 1
            ctx.notes["compiled_units"] = ctx.notes.get("compiled_units", 0) + 1
            ctx.notes["compiled_flows"] = ctx.notes.get("compiled_flows", 0) + len(items)
            ctx.notes["compiled_runs"] = ctx.notes.get("compiled_runs", 0) + sum(len(b) for _, b in items)
            for b, msg, shape, bits in fails4:
                ctx.fail(b, _case_json(shape, bits, compiled=True), msg)


def replay(case: Any) -> List[Tuple[str, str]]:
    try:
        shape = case["flow"]
        bits = [int(bool(b)) for b in case.get("bits", [])]
        _check_shape(shape)
        compiled = bool(case.get("compiled"))
    except (BadShape, TypeError, ValueError, KeyError, AttributeError, IndexError):
        return []
    out = [(b, m) for b, m, _ in evaluate_flow(shape, [bits])]
    if compiled and have_gxx():
        work = pathlib.Path(tempfile.mkdtemp(prefix="c26-replay-"))
        try:
            out.extend((b, m) for b, m, _, _ in compiled_unit([(shape, [bits])], work))
        finally:
            shutil.rmtree(work, ignore_errors=True)
    return out


def shrink(case: Any, bucket: str, budget: float) -> Any:
    """Structural shrinking with a tighter cap than the runner's default (a replay here is expensive)."""
    from vlib.shrink import jshrink

    scratch = runner.make_scratch(f"{PID}-shrink")
    runner.isolate_tmp(scratch)
    try:
        return jshrink(case, lambda c: any(b == bucket for b, _ in replay(c)), min(budget, 25.0))
    finally:
        shutil.rmtree(scratch, ignore_errors=True)


def health(m: Any, tier: str) -> Any:
    ev = max(1, m["evaluations"])
    c = m["classes"]
    problems = []
    for name, least in [("NT:yield-in-conditional-in-loop", 0.1), ("NT:trailing-noop", 0.2),
                        ("if-with-empty-else", 0.1), ("loop-with-empty-body", 0.1), ("nested-loop", 0.1),
                        ("For+init", 0.1), ("IfFalse", 0.2), ("While", 0.2), ("trace:10-49", 0.1)]:
        if c.get(name, 0) < least * ev:
            problems.append(f"class {name}: {c.get(name, 0)}/{ev} < {least:.0%}")
    if m["nontrivial_n"] < 0.25 * ev:
        problems.append(f"only {m['nontrivial_n']} non-trivial of {ev}")
    if have_gxx() and not m["notes"].get("compiled_units"):
        problems.append("no compiled unit was run although g++ is available")
    return "; ".join(problems) or None


if __name__ == "__main__":
    runner.main(sys.modules[__name__])
