#!/usr/bin/env python3
"""Regenerate MANIFEST.json from the table below (keeps the manifest valid at all times)."""
import json
import pathlib

VERIF = pathlib.Path(__file__).resolve().parent.parent
ALL = [f"C{i:02d}" for i in range(1, 31)]

# pid -> (category, technique, level text, level note, design section)
EXPL = ("Generated-input search (Hypothesis, sharded over 16 processes) against an explicit oracle; failures are bucketed by "
        "root cause, matched against known_findings.jsonl, shrunk and written as replay files. Gives confidence proportional "
        "to the explored domain stated in the evidence 'rule'; it never establishes absence of defects outside it.")

# pid -> (category, technique, level text, level note)
T = {
    "C01": ("grammar-based generation + near-miss mutation + atheris byte fuzzing; totality oracle",
            "trusts the bucketing of exceptions by innermost repository frame; CPython parser limits are out of scope"),
    "C02": ("generated accepted meta-models x 8 targets + smoke; crash/exit-status oracle",
            "minimal snippet sets; known unsupported-feature assertions are listed findings"),
    "C03": ("generated runs incl. subprocess CLIs; exit-status/report-shape oracle + metamorphic 'no error dropped'",
            "single-line diagnostics count as degenerate reports"),
    "C04": ("location-aware mutation operators; absolute oracle from Python ast + metamorphic line shift",
            "expected positions computed by CPython's ast on the mutated text"),
    "C05": ("generated class/primitive DAGs; reference model of inheritance computed from the spec graph",
            "reference closure/stacking written from the property text"),
    "C06": ("single-rule mutation of valid models; independent rule checker (differential)",
            "rule table written from the documented rules; reserved-name lists are a frozen snapshot"),
    "C07": ("typed invariant grammar with randomised Optional guards; original lambdas executed as Python on conforming instances",
            "'accepted' includes infer_for_invariant; meta-model text executed with recording stubs"),
    "C08": ("reference-model differential: generated Python SDK vs original lambdas executed as Python",
            "reference semantics = exec of the meta-model with stubs + spec-graph walk"),
    "C09": ("cross-SDK differential: TypeScript/Java/C++ drivers vs Python SDK on generated documents",
            "Python SDK is the reference (itself checked by C08/C10); core numeric domain only"),
    "C10": ("round-trip + mutated-document rejection on the imported Python SDK",
            "XML-representable text only for XML; lenient acceptance of some mutations is tolerated (listed)"),
    "C11": ("generated schema validated by jsonschema metaschema + SDK documents of invariant-satisfying instances",
            "UTF-16 code-unit pattern convention implemented in the validator"),
    "C12": ("single violating edit of valid documents must fail JSON-Schema validation",
            "byte-array length edits excluded as the property says"),
    "C13": ("generated XSD built by xmlschema (1.0 and 1.1) + SDK XML documents + pattern translation via elementpath",
            "xmlschema/elementpath are the trusted XSD processors"),
    "C14": ("violating edits (each breaking one constraint, up to 6 per document) of valid XML documents must fail XSD validation",
            "descendant tightenings of inherited properties excluded as the property says"),
    "C15": ("tag-based reference conjunction vs inferred Constraints, pointwise on sampled values",
            "recognised/near-miss tags come from the generator, evaluated with Python re/len/set"),
    "C16": ("regex AST generation with independent renderer + near-miss strings + atheris; re as oracle",
            "Python re is the reference matcher"),
    "C17": ("astral-biased regex generation; re on code points vs re on UTF-16 code units",
            "core vs extended domain as stated in the evidence"),
    "C18": ("Pike-VM reference interpreter + compiled C++ matcher vs re.fullmatch-style oracle",
            "interpreter written from the instruction docstrings; strings without line breaks"),
    "C19": ("literal round-trip through each language's own reader (python compile, g++, javac, node) and spec-derived C#/Go decoders",
            "C# and Go decoders are written from the language specifications (no compiler available)"),
    "C20": ("adversarial descriptions/values; every generated file parsed by the language's parser or a spec-derived lexer; "
            "function-level sweep of the text->comment/docstring functions embedded in tiny compilation units",
            "C#/Go: lexical well-formedness only"),
    "C21": ("planted colliding identifier pairs; expectation from naming functions + observation on generated output",
            "declared names extracted per target by parser/introspection/regex"),
    "C22": ("metamorphic: same input under different hash seeds, output dirs, snippet listing orders must give identical results",
            "subprocess runs with PYTHONHASHSEED; Path.glob patched in-process"),
    "C23": ("stateful (RuleBasedStateMachine) histories of cached/uncached runs vs fresh-TMPDIR reference; audit hooks; "
            "unpickled vs original symbol table: dump, every *_id_set query, output of all 8 targets",
            "file-system accesses observed with sys.addaudithook"),
    "C24": ("exhaustive enumeration of 2-thread schedules x crash points over wrapped fs operations + sampled N=3, real-process kills",
            "yield points = wrapped pathlib/pickle calls on the cache directory"),
    "C25": ("generated directory trees vs reference model of the loader",
            "str.strip() whitespace notion; symlinks to regular files are regular files"),
    "C26": ("generated flows x condition-outcome sequences; structured interpreter vs state machine (+ compiled C++)",
            "state-machine semantics as relied upon by the C++ emitter"),
    "C27": ("Hypothesis property test against a reference tokenisation/validity predicate",
            "word = space-separated token; article glued to following word"),
    "C28": ("generated models incl. late errors and file-level variants (BOM, CRLF, UTF-16 ...); smoke verdict vs front end / "
            "inference / C# generation + recorded cases replay",
            "C# generation observed through the csharp target with dummy snippets"),
    "C29": ("reference traversal over the spec vs descend/visitor/transformer/accessors of the imported SDK",
            "identity comparison of SDK objects"),
    "C30": ("generated constants/sets/enumerations vs imported constants, types, stringification modules",
            "SDK naming convention re-implemented"),
}

FAULT = {"C24"}
# checks that are quiet on the current tree (registered); the others stay under not_applicable until they are
READY = [f"C{i:02d}" for i in range(1, 31)]

CHECKS = {}
for pid in READY:
    tech, note = T[pid]
    CHECKS[pid] = ("fault_enumeration" if pid in FAULT else "exploration", tech, EXPL, note, f"DESIGN.md §2 {pid}")

NOT_YET = "cross-SDK differential check (TypeScript/Java/C++ vs Python SDK) is still being built; not claimed until its oracle is sound"


def main() -> None:
    checks = []
    for pid in ALL:
        if pid not in CHECKS:
            continue
        cat, tech, text, note, ref = CHECKS[pid]
        mod = f"checks.{pid.lower()}"
        checks.append(
            {
                "property_id": pid,
                "quick_cmd": f"PYTHONHASHSEED=0 /venv/bin/python -m {mod} --tier quick",
                "thorough_cmd": f"PYTHONHASHSEED=0 /venv/bin/python -m {mod} --tier thorough",
                "evidence_file": f"/verif/evidence/{pid}.json",
                "replay_cmd_template": f"PYTHONHASHSEED=0 /venv/bin/python -m {mod} --replay {{path}}",
                "engine": "vlib",
                "level_claimed": {"category": cat, "text": text, "design_ref": ref},
                "level_note": note,
                "technique": tech,
            }
        )
    manifest = {
        "version": 1,
        "setup_cmd": "bash /verif/setup.sh",
        "hooks": {
            "guard": "AAS_CORE_CODEGEN_VERIF",
            "enable": "no source hooks are used; checks observe the unmodified package from outside "
                      "(StringIO streams, audit hooks, monkey-patched pathlib/pickle inside the harness process)",
            "baseline_off_cmd": "cd /repo && /venv/bin/python -m pytest -ra -q -p no:cacheprovider --timeout=900 --continue-on-collection-errors",
            "source_commits": [],
            "add_only": True,
        },
        "engines": [
            {
                "name": "vlib",
                "path": "/verif/vlib",
                "serves_properties": sorted(CHECKS),
                "kind_free_text": "Python harness: Hypothesis-driven generation sharded over 16 processes, "
                                  "collect-and-bucket of failures, known-finding matching, greedy shrinking, evidence writer",
            }
        ],
        "checks": checks,
        "not_applicable": [
            {"property_id": pid, "reason": NOT_YET} for pid in ALL if pid not in CHECKS
        ],
        "notes": "All checks: cd /verif && PYTHONHASHSEED=0 /venv/bin/python -m checks.cNN --tier quick|thorough; "
                 "VERIF_SEED selects the Hypothesis seed. Exit 0 ok / 1 VIOLATION / 2 harness error. "
                 "known_findings.jsonl lists recorded genuine defects (never written at run time).",
    }
    (VERIF / "MANIFEST.json").write_text(json.dumps(manifest, indent=1) + "\n")


if __name__ == "__main__":
    main()
