"""
C20, function level: the text -> comment functions of the targets, called directly.

The model-level stage of C20 costs seconds per model (8 targets), so it sees a few hundred descriptions per
quick run. The functions that finally wrap a rendered description into a comment or a docstring are plain
``Stripped -> Stripped`` functions; here they get thousands of texts directly. Every result is embedded in a
place of a tiny compilation unit where a comment that ends too early, too late or not at all breaks the syntax,
and the unit is given to the same parsers as the model-level stage.
"""
from __future__ import annotations

import ast
import importlib
import pathlib
from typing import Any, Dict, List, Optional, Tuple

from hypothesis import strategies as st

from vlib import c20_gen, c20_parse

# (name, module, function)
FUNCTIONS = [
    ("python:docstring", "aas_core_codegen.python.description", "docstring"),
    ("python:documentation_comment", "aas_core_codegen.python.description", "documentation_comment"),
    ("typescript:documentation_comment", "aas_core_codegen.typescript.description", "documentation_comment"),
    ("java:documentation_comment", "aas_core_codegen.java.description", "documentation_comment"),
    ("cpp:documentation_comment", "aas_core_codegen.cpp.description", "documentation_comment"),
    ("golang:documentation_comment", "aas_core_codegen.golang.description", "documentation_comment"),
]

FRAGMENTS = list(dict.fromkeys(c20_gen.DOC_FRAGMENTS + c20_gen.LIT_FRAGMENTS + c20_gen.DOC_END_FRAGMENTS))
FILLER = "and the value of the element shall be given for testing purposes only"


@st.composite
def texts(draw: Any) -> str:
    """Stripped, non-empty texts of 1-3 lines: plain words mixed with the fragment pools of c20_gen; half of
    them end in one of the end fragments; lengths on both sides of the one-line limits of the renderers."""
    n_lines = draw(st.sampled_from([1, 1, 1, 2, 3]))
    lines = []  # type: List[str]
    for _ in range(n_lines):
        n = draw(st.integers(1, 6))
        parts = []  # type: List[str]
        for _ in range(n):
            if draw(st.integers(0, 2)) == 0:
                parts.append(draw(st.sampled_from(FRAGMENTS)))
            else:
                parts.append(draw(st.sampled_from(c20_gen.SAFE_WORDS)))
        glue = draw(st.sampled_from([" ", " ", ""]))
        line = glue.join(parts)
        if draw(st.integers(0, 5)) == 0:
            line = FILLER[: draw(st.integers(10, len(FILLER)))] + " " + line
        lines.append(line)
    text = "\n".join(lines)
    if draw(st.booleans()):
        text += draw(st.sampled_from(["", " "])) + draw(st.sampled_from(c20_gen.DOC_END_FRAGMENTS))
    text = text.strip()
    if any(ln.strip() == "" for ln in text.split("\n")) and draw(st.booleans()):
        pass  # empty lines inside are legal (paragraph breaks)
    return text if text else "x"


def dangerous(text: str) -> bool:
    return any(c20_gen.fragment_class(f, "text") in c20_gen.DANGEROUS_CLASSES for f in FRAGMENTS if f in text)


def render_all(text: str) -> Dict[str, Tuple[Optional[str], Optional[BaseException]]]:
    from aas_core_codegen.common import Stripped

    out = {}  # type: Dict[str, Tuple[Optional[str], Optional[BaseException]]]
    for name, mod, fn in FUNCTIONS:
        try:
            out[name] = (str(getattr(importlib.import_module(mod), fn)(Stripped(text))), None)
        except BaseException as e:  # noqa
            if type(e).__name__ in ("KeyboardInterrupt", "SystemExit", "MemoryError"):
                raise
            out[name] = (None, e)
    return out


def _indent(s: str, prefix: str) -> str:
    return "\n".join(prefix + ln if ln else ln for ln in s.split("\n"))


def check_python(name: str, doc: str) -> Optional[Tuple[str, str]]:
    if name == "python:docstring":
        src = "class X:\n" + _indent(doc, "    ") + "\n    y = 1\n"
    else:
        src = doc + "\ny = 1\n"
    try:
        tree = ast.parse(src)
    except (SyntaxError, ValueError) as e:
        return "syntax-error", f"{type(e).__name__}: {e}\n{src}"
    if name == "python:docstring":
        body = tree.body[0].body if tree.body and isinstance(tree.body[0], ast.ClassDef) else []
        ok = (len(tree.body) == 1 and len(body) == 2 and isinstance(body[0], ast.Expr)
              and isinstance(body[0].value, ast.Constant) and isinstance(body[0].value.value, str)
              and isinstance(body[1], ast.Assign))
        if not ok:
            return "docstring-not-one-string-statement", src
    else:
        if not (len(tree.body) == 1 and isinstance(tree.body[0], ast.Assign)):
            return "comment-leaks-into-code", src
    return None


def units(idx: int, rendered: Dict[str, Tuple[Optional[str], Optional[BaseException]]]) -> Dict[str, Tuple[str, str]]:
    """name -> (relative file name, source) for the targets checked by external tools."""
    out = {}  # type: Dict[str, Tuple[str, str]]
    for name, (doc, exc) in rendered.items():
        if doc is None:
            continue
        if name.startswith("typescript:"):
            out[name] = (f"u{idx}.ts", "export const x = [\n" + doc + "\n1\n];\n")
        elif name.startswith("java:"):
            out[name] = (f"U{idx}.java", f"class U{idx} {{\n" + _indent(doc, "  ") + "\n  int y = 1;\n}\n")
        elif name.startswith("cpp:"):
            out[name] = (f"u{idx}.cpp", "int x = (\n" + doc + "\n1\n);\n")
        elif name.startswith("golang:"):
            out[name] = (f"u{idx}.go", "package u\n\n" + doc + "\nvar y = 1\n")
    return out


def check_batch(root: pathlib.Path, scratch: pathlib.Path, items: List[Tuple[int, str]]) -> List[Tuple[int, str, str, str]]:
    """items: (index, text). Returns (index, function name, kind, message) for every failure."""
    fails = []  # type: List[Tuple[int, str, str, str]]
    root.mkdir(parents=True, exist_ok=True)
    by_file = {}  # type: Dict[str, Tuple[int, str]]
    ts_rels, java_rels, cpp_rels = [], [], []
    for idx, text in items:
        rendered = render_all(text)
        for name, (doc, exc) in rendered.items():
            if exc is not None:
                fails.append((idx, name, f"raises-{type(exc).__name__}", repr(exc)[:300]))
            elif name.startswith("python:"):
                r = check_python(name, doc)  # type: ignore
                if r is not None:
                    fails.append((idx, name, r[0], r[1][:1200]))
        for name, (rel, src) in units(idx, rendered).items():
            (root / rel).write_text(src, encoding="utf-8")
            by_file[rel] = (idx, name)
            if rel.endswith(".ts"):
                ts_rels.append(rel)
            elif rel.endswith(".java"):
                java_rels.append(rel)
            elif rel.endswith(".cpp"):
                cpp_rels.append(rel)
            elif rel.endswith(".go"):
                doc = rendered[name][0] or ""
                bad = [ln for ln in doc.split("\n") if not ln.startswith("//")]
                if bad:
                    fails.append((idx, name, "comment-line-without-//", f"{bad[0][:200]!r}\n{src[:800]}"))
                else:
                    for dg in c20_parse.lex_go(src, rel)[:1]:
                        fails.append((idx, name, dg.code, f"{dg.message}\n{src[:800]}"))
    for dg in c20_parse.check_typescript(root, ts_rels):
        idx, name = by_file[dg.file]
        fails.append((idx, name, dg.code, f"{dg.message}\n{(root / dg.file).read_text(encoding='utf-8')[:800]}"))
    if java_rels:
        classes = c20_parse.ensure_parse_only(scratch)
        diags, _, members = c20_parse.run_parse_only(classes, root, java_rels)
        flagged = set()
        for dg in diags:
            if dg.file in flagged:
                continue
            flagged.add(dg.file)
            idx, name = by_file[dg.file]
            fails.append((idx, name, dg.code, f"{dg.message}\n{(root / dg.file).read_text(encoding='utf-8')[:800]}"))
        with_y = {m[0] for m in members if m[3] == "y"}
        for rel in java_rels:
            if rel not in flagged and rel not in with_y:
                idx, name = by_file[rel]
                fails.append((idx, name, "declaration-after-comment-lost", (root / rel).read_text(encoding="utf-8")[:800]))
    pending = []  # type: List[str]
    for rel in cpp_rels:
        idx, name = by_file[rel]
        sp = c20_parse.cpp_line_comment_splices(root / rel, rel)
        if sp:
            fails.append((idx, name, sp[0].code, sp[0].message))
        else:
            pending.append(rel)
    # one translation unit for all of them first (g++ start-up dominates); only if it has a syntax diagnostic the
    # units are compiled one by one
    if pending:
        joined = []  # type: List[str]
        for k, rel in enumerate(pending):
            joined.append((root / rel).read_text(encoding="utf-8").replace("int x = (", f"int x{k} = (", 1))
        (root / "all_units.cpp").write_text("\n".join(joined), encoding="utf-8")
        syntax, other = c20_parse.check_cpp_tu(root, "all_units.cpp")
        if syntax or other:
            for rel in pending:
                idx, name = by_file[rel]
                syntax, _ = c20_parse.check_cpp_tu(root, rel)
                for dg in syntax[:1]:
                    fails.append((idx, name, dg.code, f"{dg.message}\n{(root / rel).read_text(encoding='utf-8')[:800]}"))
    return fails
