"""C09 — TypeScript, Java and C++ SDKs agree with the Python SDK."""
from __future__ import annotations

import json
import shutil
import sys
from typing import Any, Dict, List, Tuple

from vlib import c09_core, c09_gen, c09_targets, mmgen, runner, sdk

PID = "C09"
RULE = (
    "Hypothesis: accepted meta-model (vlib.mmgen class DAGs, constrained primitives, enumerations, constants; typed invariant "
    "grammar of vlib.invgen 'general' (2/3) or the schema forms of vlib.schemainv (1/3); invariant descriptions with quotes, "
    "backslashes, non-ASCII, ${x}) drawn under a per-target profile: 'ts' unrestricted incl. adversarial enumeration values; "
    "'java' = no 2+ parents, lists only of classes, no len() of bytes (generator refuses those: C02) and, to get behind the "
    "recorded findings that the generated Java SDK does not compile, no int/float properties or constants, >=1 enumeration, "
    ">=1 property per concrete class; 'cpp' = no optional lists of primitives (C02) and no concrete class with descendants, "
    "no class without properties, <=1 list of constrained primitives per class; every 5th Java/C++ model is drawn without the "
    "second group of restrictions ('javanum'/'cppraw') so that those findings stay visible. Per model: Python SDK generated "
    "and imported (reference) -> corpus of JSON documents = SDK-serialised boundary-biased instances (valid and "
    "invariant-violating; ints within +-(2^53-1), finite floats incl. -0.0, 5e-324, 1.797e308; strings with astral "
    "characters, CR, quotes), the same document through an ancestor's entry point, and 4 single-site typed mutations per "
    "instance (drop/null a property, unknown property, modelType unknown/of another class/not a string/missing/wrong "
    "case/added, object<->array<->string<->number<->bool at every kind of site, 12 kinds of malformed base64, unknown/"
    "mis-cased enumeration literal or literal name, int->fraction, int/float boundary values). Each target of the profile is "
    "generated from the same model, built (node 22 type stripping / javac + Jackson / g++ -std=c++17 -O0) and a driver "
    "de-serialises every document through the class's public entry point, re-serialises and verifies it. Oracle: same "
    "accept/reject verdict as the Python SDK's <cls>_from_jsonable; equal re-serialised JSON (parsed, numbers by value); "
    "equal MULTISET of (path as canonical property names/indices, message) of verification errors; equal constants, set "
    "contents and enumeration (literal name, string) lists. Error order, refusal texts and path syntax are not compared. "
    "Extended domain (ints beyond 2^53, 1e400, '5.0' for an int) is run and counted in classes 'ext:*' but not asserted. "
    "Non-trivial = document the Python SDK rejects or reports >=1 verification error on; distinct by (model, class, document). "
    "quick: 64 models (all run TypeScript; 10 also Java, 6 also C++), 50 documents each; thorough: 3000/400/250 models, 120 "
    "documents each."
)
ASSUMPTIONS = [
    "the Python SDK is the reference (its own faithfulness is C08/C10); a foreign exception of the Python SDK counts as 'refused'",
    "entities are matched across languages by canonical name (lower case, underscores removed); models where two names "
    "coincide canonically are skipped and counted",
    "X_from_jsonable of Python corresponds to xFromJsonable (TypeScript), Jsonization.Deserialize.deserializeIX if it exists "
    "else deserializeX (Java: the interface entry point dispatches like Python), jsonization::XFrom (C++)",
    "JSON numbers are compared by value: 100 == 100.0 and -0.0 == 0",
    "Java prefixes every verification message with the constant 'Invariant violated:\\n'; the prefix is stripped before the "
    "descriptions are compared (presentation, not content)",
    "a generated SDK that does not build or load gives no verdict at all: counted as a violation of C09, bucketed "
    "<target>:sdk-does-not-compile/-load:<first compiler error with the model's names blanked>",
    "models the target's generator refuses or crashes on are counted and skipped (C02)",
    "U+2028/U+2029 in invariant descriptions are replaced before rendering: the generators' re-indentation splits literals "
    "at Unicode line separators in every target including Python (C19), which would only show up here as noise",
    "known Python-SDK leniencies recorded under C10 (int accepts true/false; bad base64 raises binascii.Error or is "
    "silently accepted; float rejects an integer literal) appear here as verdict differences with their own buckets "
    "(listed in known_findings.jsonl under C09 with a reference to C10)",
    "Java xmlization and C++ xmlization.cpp/visitation.cpp are not needed by the property: C++ does not compile them; "
    "javac compiles the whole src/main tree (one compilation unit set)",
    "C# and Go are not covered (no toolchain in the sandbox); the property restricts itself to runnable targets",
]

QUICK = {"typescript": 64, "java": 10, "cpp": 6}
THOROUGH = {"typescript": 3000, "java": 400, "cpp": 250}
N_INST = {"quick": 10, "thorough": 24}
N_MUT = 4


def _share(total: int, nshards: int, shard: int, from_end: bool = False) -> int:
    base, extra = divmod(total, nshards)
    pos = (nshards - 1 - shard) if from_end else shard
    return base + (1 if pos < extra else 0)


def _canon_collision(spec: mmgen.Spec) -> bool:
    names = [p.name for c in spec.classes for p in c.props]
    if len({c09_gen.canon(n) for n in names}) != len(set(names)):
        return True
    tn = [c.name for c in spec.classes] + [e.name for e in spec.enums] + [c.name for c in spec.cps]
    if len({c09_gen.canon(n) for n in tn}) != len(set(tn)):
        return True
    for e in spec.enums:
        ln = [n for n, _ in e.literals]
        if len({c09_gen.canon(n) for n in ln}) != len(ln):
            return True
    cn = [c.name for c in spec.consts]
    return len({c09_gen.canon(n) for n in cn}) != len(cn)


def evaluate(case: Dict[str, Any], base: Any, ctx: Any = None) -> List[Tuple[str, str]]:
    fails = []  # type: List[Tuple[str, str]]
    spec = mmgen.Spec.from_json(case["spec"])
    profile = case.get("profile", "ts")
    targets = [t for t in c09_gen.PROFILE_TARGETS.get(profile, ["typescript"])]
    if case.get("targets"):
        targets = [t for t in targets if t in case["targets"]]
    text = mmgen.render(spec)
    if _canon_collision(spec):
        if ctx is not None:
            ctx.exclude("canonical-name-collision")
        return []
    try:
        s, why = sdk.build_py_sdk(text, base)
    except BaseException as e:  # noqa: a Python SDK that does not import is C08/C10's finding
        if ctx is not None:
            ctx.exclude(f"python-sdk-import-fails:{type(e).__name__}")
        return []
    if s is None:
        if ctx is not None:
            ctx.exclude("python-target-" + why.split(":")[0])
        return []
    with s:
        items, problems = c09_core.build_corpus(spec, s, sdk, case)
        for b, m in problems:
            if ctx is not None:
                ctx.exclude(b)
        idx = c09_core._index(s.jsonization)
        py_meta = c09_core.py_meta(spec, s)
        py_results = [c09_core.py_eval(s, idx, it["cls"], json.loads(it["text"])) for it in items]
    bodies = c09_core.desc_bodies(spec)
    corpus = c09_core.corpus_text(spec, items)
    if ctx is not None:
        ctx.classes["models"] += 1
        ctx.classes[f"profile:{profile}"] += 1
        for it, pr in zip(items, py_results):
            nt = pr.get("ok") is False or (pr.get("ok") is True and len(pr["errors"]) > 0)
            verdict = "rejected" if pr.get("ok") is False else ("foreign" if pr.get("ok") != True else  # noqa: E712
                                                               f"errors:{min(len(pr['errors']), 3)}{'+' if len(pr['errors']) > 3 else ''}")
            ctx.case(nt, key=[text, it["cls"], it["text"]],
                     sample={"class": it["cls"], "mutation": it["tag"], "doc": it["text"][:300], "python": json.dumps(pr)[:300]},
                     classes=["documents", f"python:{verdict}", f"doc:{it['tag'].split(':')[0]}", f"domain:{it['domain']}"])
            if pr.get("foreign"):
                ctx.classes[f"python-foreign-exception:{pr['foreign']}"] += 1
    for target in targets:
        short = c09_targets.SHORT[target]
        missing = c09_targets.toolchain(target)
        if missing is not None:
            if ctx is not None:
                ctx.exclude(f"{short}-toolchain-missing")
                ctx.notes[f"{short}_toolchain_missing"] = 1
            continue
        res = c09_targets.RUNNERS[target](spec, text, corpus, len(items), base)
        if ctx is not None:
            ctx.classes[f"{short}:models-attempted"] += 1
        if res[0] == "skipped":
            if ctx is not None:
                ctx.exclude(res[1])
            continue
        if res[0] == "broken":
            if ctx is not None:
                ctx.classes[f"{short}:models-broken"] += 1
            fails.extend((f"{short}:{suffix}", message) for suffix, message in res[1])
            continue
        out = res[1]
        if ctx is not None:
            ctx.classes[f"{short}:models-compared"] += 1
            ctx.notes[f"{short}_documents_compared"] = ctx.notes.get(f"{short}_documents_compared", 0) + len(items)
        fails.extend(c09_core.compare_meta(short, spec, py_meta, out[0]))
        for it, pr, tr in zip(items, py_results, out[1:]):
            got = c09_core.compare_doc(short, spec, it, pr, tr, bodies)
            if it["domain"] == "ext":
                if ctx is not None:
                    ctx.classes[f"ext:{short}:{it['tag']}:{'differs' if got else 'agrees'}"] += 1
                continue
            if ctx is not None and pr.get("ok") == tr.get("ok"):
                ctx.classes[f"{short}:agree-on-verdict"] += 1
            fails.extend(got)
    return fails


def shard(ctx: runner.Ctx) -> None:
    totals = QUICK if ctx.quick else THOROUGH
    import os

    scale = float(os.environ.get("VERIF_SCALE", "1"))
    n_ts = max(1, _share(int(totals["typescript"] * scale), ctx.nshards, ctx.shard))
    n_java = _share(max(1, int(totals["java"] * scale)), ctx.nshards, ctx.shard)
    n_cpp = _share(max(1, int(totals["cpp"] * scale)), ctx.nshards, ctx.shard, from_end=True)
    only = os.environ.get("VERIF_C09_TARGETS")  # development aid: e.g. "typescript" or "java,cpp"
    keep = set(only.split(",")) if only else None
    if keep is not None:
        n_java = n_java if "java" in keep else 0
        n_cpp = n_cpp if "cpp" in keep else 0
        if "typescript" not in keep:
            n_ts = n_java + n_cpp
    n_inst = N_INST[ctx.tier]
    # every 5th Java / C++ model keeps the constructs on which the generated SDK is known not to build
    # ("javanum", "cppraw"), so that those findings stay visible; the others are explored behind them
    n_javanum = sum(1 for j in range(n_java) if (ctx.shard + j) % 5 == 4)
    n_cppraw = sum(1 for j in range(n_cpp) if (ctx.shard + j) % 5 == 4)
    plan = [("cpp", n_cpp - n_cppraw), ("cppraw", n_cppraw), ("java", n_java - n_javanum), ("javanum", n_javanum),
            ("ts", max(0, n_ts - n_java - n_cpp))]

    def one(case: Dict[str, Any]) -> None:
        if keep is not None:
            case["targets"] = sorted(keep)
        for b, m in evaluate(case, ctx.scratch, ctx):
            ctx.fail(b, case, m)

    for i, (profile, n) in enumerate(plan):
        if n > 0:
            runner.hyp_run(c09_gen.cases(profile, n_inst, N_MUT), one, n, ctx.seed * 10 + i)


def replay(case: Any) -> List[Tuple[str, str]]:
    if not isinstance(case, dict) or "spec" not in case:
        return []
    base = runner.make_scratch("c09-replay")
    try:
        case = dict(case)
        case.setdefault("instances", [])
        case.setdefault("muts", [])
        return evaluate(case, base, None)
    except (KeyError, TypeError, AttributeError, IndexError, AssertionError, StopIteration, ValueError):
        return []
    finally:
        shutil.rmtree(base, ignore_errors=True)


def health(m: Any, tier: str) -> Any:
    models = m["classes"].get("models", 0)
    if models == 0:
        return f"no model survived: {m['excluded']}"
    for short in ("ts", "java", "cpp"):
        tried = m["classes"].get(f"{short}:models-attempted", 0)
        done = m["classes"].get(f"{short}:models-compared", 0) + m["classes"].get(f"{short}:models-broken", 0)
        if tried >= 4 and done < 0.5 * tried:
            return f"{short}: only {done} of {tried} models were compared: {m['excluded']}"
    docs = m["classes"].get("documents", 0)
    if docs and m["nontrivial_n"] < 0.2 * docs:
        return f"only {m['nontrivial_n']} non-trivial documents of {docs}"
    return None


if __name__ == "__main__":
    runner.main(sys.modules[__name__])
