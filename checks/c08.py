"""C08 — Generated Python verification implements the invariants exactly."""
from __future__ import annotations

import collections
import re
import shutil
import sys
from typing import Any, Dict, List, Tuple

from hypothesis import strategies as st

from vlib import instgen, mmgen, refmodel, runner, sdk

PID = "C08"
RULE = (
    "Hypothesis: accepted meta-model (vlib.mmgen with the typed invariant grammar: comparisons in both operand orders, "
    "len, is None/is not None guards in 4 spellings, implication, and/or/not, any/all over lists and over range(), "
    "membership in constant sets of str/int/enum literals, calls to pattern and transpilable verification functions, "
    "f-string patterns, nested member access, inherited invariants, constrained primitives as property and list item) "
    "-> Python target generated and imported -> 12 (quick) / 40 (thorough) boundary-biased instances per model built "
    "through the SDK constructors. Oracle: the reference verdict is computed by executing the meta-model source as Python "
    "with recording stubs (original lambdas) and walking the instance by the spec graph; multiset of (path, description) "
    "must equal [(str(e.path), e.cause) for e in verification.verify(x)]; verification functions compared pointwise with "
    "the original Python functions; SDK raises iff the reference raises. Non-trivial = instance with >=1 false and >=1 true "
    "invariant; distinct by (model text, instance)."
)
ASSUMPTIONS = [
    "SDK naming convention (CamelCase classes keeping upper-case parts, lower_snake properties, UPPER_SNAKE literals) is "
    "re-implemented in vlib.refmodel, not imported",
    "path syntax of the Python SDK: '.prop' and '[i]' segments as printed by str(error.path)",
    "models on which the Python target reports an error or crashes are counted and skipped (C02 decides those)",
    "known finding excluded by construction: none",
]

N_INST_QUICK = 12
N_INST_THOROUGH = 40


def opts() -> mmgen.Opts:
    return mmgen.Opts(max_classes=5, max_props=4, max_invs=3, invariants="general", docs="none")


@st.composite
def cases(draw: Any, n_inst: int) -> Dict[str, Any]:
    spec = draw(mmgen.specs(opts()))
    ig = instgen.InstGen(spec)
    insts = draw(st.lists(ig.any_instance(), min_size=n_inst, max_size=n_inst))
    strs = draw(st.lists(ig.s_str(), min_size=8, max_size=8))
    ints = draw(st.lists(ig.s_int(), min_size=8, max_size=8))
    return {"spec": spec.to_json(), "instances": insts, "strs": strs, "ints": ints}


def features(body: str) -> str:
    fs = []
    for name, pat in [("all", r"\ball\("), ("any", r"\bany\("), ("range", r"\brange\("), ("in-set", r" in [A-Z]"),
                      ("len", r"\blen\("), ("impl", r"not \(.*\) or "), ("isnone", r" is None"), ("isnotnone", r" is not None"),
                      ("call", r"\b(matches|is)_\w+\("), ("and", r" and "), ("or", r" or "), ("enum", r"\w+\.\w+ ==|== \w+\.[A-Z]")]:
        if re.search(pat, body):
            fs.append(name)
    return fs[0] if fs else "plain"


def evaluate(case: Dict[str, Any], base: Any, ctx: Any = None) -> List[Tuple[str, str]]:
    fails = []  # type: List[Tuple[str, str]]
    spec = mmgen.Spec.from_json(case["spec"])
    text = mmgen.render(spec)
    try:
        rm = refmodel.load(text)
    except BaseException as e:  # noqa: the reference could not execute the model: harness problem
        if ctx is not None:
            ctx.exclude(f"reference-exec-failed:{type(e).__name__}")
        return []
    try:
        s, why = sdk.build_py_sdk(text, base)
    except BaseException as e:  # noqa: generated SDK does not import
        return [(f"sdk-import-fails:{type(e).__name__}", runner.exc_text(e))]
    if s is None:
        if ctx is not None:
            ctx.exclude("python-target-" + why.split(":")[0])
        return []
    desc_to_body = {}
    for c in spec.classes:
        for i in c.invs:
            desc_to_body[i.desc] = i.body
    for c in spec.cps:
        for i in c.invs:
            desc_to_body[i.desc] = i.body
    with s:
        # verification functions pointwise
        for f in spec.fns:
            if f.kind == "impl":
                continue
            ref_f = rm.fns.get(f.name)
            sdk_f = getattr(s.verification, f.name.lower(), None)
            if sdk_f is None:
                fails.append(("verification-function-missing", f"{f.name} not in verification module"))
                continue
            args = case["strs"] + f.examples if f.args[0][1].name == "str" else case["ints"]
            for a in args:
                try:
                    exp = bool(ref_f(a))
                except BaseException:  # noqa
                    continue
                try:
                    got = sdk_f(a)
                except BaseException as e:  # noqa
                    fails.append((f"function-raises:{f.kind}:{type(e).__name__}", f"{f.name}({a!r}) body={f.body or f.pattern!r}\n{runner.exc_text(e)}"))
                    continue
                if got is not exp:
                    fails.append((f"function-differs:{f.kind}", f"{f.name}({a!r}) sdk={got!r} python={exp!r} body={f.body or f.pattern!r}"))
                if ctx is not None:
                    ctx.classes[f"fn:{f.kind}"] += 1
        for neutral in case["instances"]:
            try:
                ref = refmodel.to_ref(spec, rm, neutral)
                inst = sdk.to_sdk(spec, s, neutral)
            except BaseException as e:  # noqa
                fails.append((f"instance-construction:{type(e).__name__}", runner.exc_text(e)))
                continue
            ref_exc = None
            try:
                expected = refmodel.expected_errors(spec, rm, neutral, ref)
            except BaseException as e:  # noqa
                ref_exc = e
                expected = []
            sdk_exc = None
            try:
                actual = [(str(e.path), e.cause) for e in s.verification.verify(inst)]
            except BaseException as e:  # noqa
                sdk_exc = e
                actual = []
            n_inv = _count_invariants(spec, neutral)
            nt = ref_exc is None and 0 < len(expected) < n_inv
            if ctx is not None:
                ctx.case(nt, key=[text, neutral],
                         sample={"instance": neutral, "expected_errors": expected[:4], "model_tail": text[-300:]},
                         classes=["instance", f"errors:{min(len(expected), 3)}{'+' if len(expected) > 3 else ''}"])
            if ref_exc is not None or sdk_exc is not None:
                if (ref_exc is None) != (sdk_exc is None):
                    which = "sdk-raises-python-does-not" if sdk_exc is not None else "python-raises-sdk-does-not"
                    exc = sdk_exc or ref_exc
                    fails.append((f"{which}:{type(exc).__name__}", f"instance={neutral!r}\n{runner.exc_text(exc)}"))  # type: ignore
                continue
            ce, ca = collections.Counter(expected), collections.Counter(actual)
            if ce != ca:
                missing = list((ce - ca).elements())
                extra = list((ca - ce).elements())
                for path, desc in missing[:2]:
                    body = desc_to_body.get(desc, "?")
                    kind = "missing-error" if not any(d == desc for _, d in extra) else "wrong-path"
                    fails.append((f"{kind}:{features(body)}", f"invariant={body!r} desc={desc!r} path={path!r}\ninstance={neutral!r}\nexpected={expected!r}\nactual={actual!r}"))
                for path, desc in extra[:2]:
                    if desc not in desc_to_body:
                        fails.append(("description-not-verbatim", f"got cause {desc!r} at {path!r}; expected one of {sorted(set(d for _, d in expected))!r}"))
                    elif not any(d == desc for _, d in missing):
                        body = desc_to_body[desc]
                        fails.append((f"extra-error:{features(body)}", f"invariant={body!r} desc={desc!r} path={path!r}\ninstance={neutral!r}\nexpected={expected!r}\nactual={actual!r}"))
    return fails


def _count_invariants(spec: mmgen.Spec, neutral: Any) -> int:
    n = 0
    cname = neutral["cls"]
    for k in [cname] + spec.ancestors(cname):
        n += len(spec.cls(k).invs)
    for p in spec.all_props(cname):
        v = neutral["props"].get(p.name)
        if v is None:
            continue
        n += _count_value(spec, p.type.core, v)
    return n


def _count_value(spec: mmgen.Spec, t: Any, v: Any) -> int:
    if t.kind == "cp":
        return sum(len(spec.cp(k).invs) for k in [t.name] + spec.cp_ancestors(t.name))
    if t.kind == "class":
        return _count_invariants(spec, v)
    if t.kind == "list":
        return sum(_count_value(spec, t.item, x) for x in v)
    return 0


def shard(ctx: runner.Ctx) -> None:
    n = ctx.n(300, 20_000)
    n_inst = N_INST_QUICK if ctx.quick else N_INST_THOROUGH

    def one(case: Dict[str, Any]) -> None:
        ctx.classes["models"] += 1
        for b, m in evaluate(case, ctx.scratch, ctx):
            # keep one instance only in the saved case (smaller replays)
            ctx.fail(b, case, m)

    runner.hyp_run(cases(n_inst), one, n, ctx.seed)


def replay(case: Any) -> List[Tuple[str, str]]:
    if not isinstance(case, dict) or "spec" not in case:
        return []
    base = runner.make_scratch("c08-replay")
    try:
        case = dict(case)
        case.setdefault("instances", [])
        case.setdefault("strs", [])
        case.setdefault("ints", [])
        return evaluate(case, base, None)
    except (KeyError, TypeError, AttributeError, IndexError, AssertionError):
        return []
    finally:
        shutil.rmtree(base, ignore_errors=True)


def health(m: Any, tier: str) -> Any:
    models = m["classes"].get("models", 0)
    skipped = sum(v for k, v in m["excluded"].items())
    if models and skipped > 0.3 * models:
        return f"{skipped} of {models} models skipped: {m['excluded']}"
    if m["nontrivial_n"] < 0.05 * max(1, m["classes"].get("instance", 0)):
        return f"only {m['nontrivial_n']} non-trivial instances of {m['classes'].get('instance', 0)}"
    return None


if __name__ == "__main__":
    runner.main(sys.modules[__name__])
