#!/usr/bin/env bash
# Evaluate a seeded change: tools/try_seed.sh <PID> <patch.diff> [demo.py] [extra check ids...]
# - applies the patch in a scratch worktree of /repo HEAD (outside /repo and /verif),
# - runs the demonstration against the unchanged tree (/repo) and the changed tree,
# - runs the check(s) of the property with VERIF_REPO pointing at the changed tree,
# - removes the worktree.
set -u
PID="$1"; PATCH="$(readlink -f "$2")"; DEMO="${3:-}"; shift; shift; [ $# -gt 0 ] && shift
CHECKS="${*:-$PID}"
WT="/tmp/wt/try-$PID-$$"
SCALE="${VERIF_SCALE:-0.5}"
git -C /repo worktree add --detach "$WT" HEAD >/dev/null 2>&1 || { echo "cannot create worktree"; exit 2; }
trap 'git -C /repo worktree remove --force "$WT" >/dev/null 2>&1' EXIT
if ! git -C "$WT" apply "$PATCH"; then echo "PATCH DOES NOT APPLY"; exit 2; fi
echo "== files changed:"; git -C "$WT" diff --stat | tail -3
if [ -n "$DEMO" ] && [ -f "$DEMO" ]; then
  T1=$(mktemp -d); T2=$(mktemp -d)
  (cd /tmp && TMPDIR=$T1 PYTHONPATH=/repo timeout 900 /venv/bin/python "$DEMO" >/dev/null 2>&1); echo "== demo on unchanged tree: exit $?"
  (cd /tmp && TMPDIR=$T2 PYTHONPATH="$WT" timeout 900 /venv/bin/python "$DEMO" >/dev/null 2>&1); echo "== demo on changed tree:   exit $?"
  rm -rf "$T1" "$T2"
fi
cd /verif
for c in $CHECKS; do
  m="checks.$(echo "$c" | tr 'A-Z' 'a-z')"
  echo "== $c against the changed tree (scale $SCALE)"
  VERIF_REPO="$WT" VERIF_SCALE="$SCALE" PYTHONHASHSEED=0 timeout 3000 /venv/bin/python -m "$m" --tier quick 2>&1 | grep "^--- \|^VIOLATION\|^C[0-9][0-9] tier\|HARNESS" | cut -c1-220
done
