"""
Reference interpreter for the regex-VM programs of ``intermediate/revm.py``.

Written from the instruction docstrings only ("Match a single character", "Match a set
of characters", "Match an out-of-set character", "Match any character", "Stop the thread
and signal that we found a match", "Jump to the indicated position in the program",
"Split the program in two threads, both jumping to different locations", "Match the
end-of-input") and from the statement in ``_relabel_in_place`` that labels and targets are
*indices in the linearised sequence of instructions*. The interpreter is a textbook
Pike/Thompson simulation: a set of program counters per input position, epsilon closure
over jump/split (and ``end`` at the end of input), acceptance as soon as any thread
reaches ``match``.

No code is shared with the repository: instructions are recognised by class *name* and
read through their documented attributes, so this module does not import the package.
"""
from __future__ import annotations

from typing import Any, List, Sequence, Tuple


class VMError(Exception):
    """The program is malformed (a thread ran off the program, unknown instruction...)."""


def linearize(root: Any) -> List[Any]:
    """Leaves of the nested program in order (a leaf has ``instruction``; a node ``children``)."""
    out = []  # type: List[Any]
    stack = [root]
    while stack:
        n = stack.pop()
        if hasattr(n, "instruction"):
            out.append(n)
        else:
            stack.extend(reversed(list(n.children)))
    return out


def _kind(instruction: Any) -> str:
    return type(instruction).__name__


def check(leaves: Sequence[Any]) -> List[str]:
    """Structural problems: labels must equal indices; targets must be existing labels."""
    problems = []  # type: List[str]
    labels = set()
    for i, leaf in enumerate(leaves):
        if leaf.label is not None:
            if leaf.label != i:
                problems.append(f"label {leaf.label} on instruction #{i}")
            labels.add(leaf.label)
    for i, leaf in enumerate(leaves):
        ins = leaf.instruction
        k = _kind(ins)
        targets = []  # type: List[int]
        if k == "InstructionJump":
            targets = [ins.target]
        elif k == "InstructionSplit":
            targets = [ins.first_target, ins.second_target]
        elif k not in (
            "InstructionChar", "InstructionSet", "InstructionNotSet", "InstructionAny",
            "InstructionMatch", "InstructionEnd",
        ):
            problems.append(f"unknown instruction {k} at #{i}")
        for t in targets:
            if not isinstance(t, int) or t < 0 or t >= len(leaves):
                problems.append(f"{k} at #{i} targets {t!r} outside the program of {len(leaves)}")
            elif t not in labels:
                problems.append(f"{k} at #{i} targets {t}, which carries no label")
    if not leaves:
        problems.append("empty program")
    return problems


def compile_program(root: Any) -> List[Tuple[Any, ...]]:
    """Flatten to tuples ``(kind, payload...)`` for a fast inner loop."""
    prog = []  # type: List[Tuple[Any, ...]]
    for leaf in linearize(root):
        ins = leaf.instruction
        k = _kind(ins)
        if k == "InstructionChar":
            prog.append(("char", ord(ins.character)))
        elif k in ("InstructionSet", "InstructionNotSet"):
            rs = tuple((ord(r.first), ord(r.last)) for r in ins.ranges)
            prog.append(("set" if k == "InstructionSet" else "notset", rs))
        elif k == "InstructionAny":
            prog.append(("any",))
        elif k == "InstructionMatch":
            prog.append(("match",))
        elif k == "InstructionJump":
            prog.append(("jump", ins.target))
        elif k == "InstructionSplit":
            prog.append(("split", ins.first_target, ins.second_target))
        elif k == "InstructionEnd":
            prog.append(("end",))
        else:
            raise VMError(f"unknown instruction {k}")
    return prog


def run(prog: Sequence[Tuple[Any, ...]], text: str) -> bool:
    """Does any thread reach ``match``?"""
    n = len(prog)
    threads = [0]
    length = len(text)
    for pos in range(length + 1):
        at_end = pos == length
        # epsilon closure
        seen = set()
        consuming = []  # type: List[int]
        stack = list(reversed(threads))
        while stack:
            pc = stack.pop()
            if pc in seen:
                continue
            seen.add(pc)
            if pc < 0 or pc >= n:
                raise VMError(f"program counter {pc} outside the program of {n} instructions")
            ins = prog[pc]
            k = ins[0]
            if k == "match":
                return True
            if k == "jump":
                stack.append(ins[1])
            elif k == "split":
                stack.append(ins[2])
                stack.append(ins[1])
            elif k == "end":
                if at_end:
                    stack.append(pc + 1)
            else:
                consuming.append(pc)
        if at_end:
            return False
        cp = ord(text[pos])
        nxt = []  # type: List[int]
        for pc in consuming:
            ins = prog[pc]
            k = ins[0]
            if k == "char":
                ok = cp == ins[1]
            elif k == "any":
                ok = True
            else:
                inside = any(lo <= cp <= hi for lo, hi in ins[1])
                ok = inside if k == "set" else not inside
            if ok:
                nxt.append(pc + 1)
        if not nxt:
            return False
        threads = nxt
    return False
