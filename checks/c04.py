"""C04 — Reported error locations point at the offending construct."""
from __future__ import annotations

import ast
import io
import pathlib
import random
import re
import shutil
import sys
import zlib
from typing import Any, Dict, List, Optional, Set, Tuple

from hypothesis import strategies as st

from vlib import c03_gen as g
from vlib import mmgen, runner, sut

PID = "C04"
RULE = (
    "Hypothesis: an accepted meta-model (vlib.mmgen) into which ONE error is planted at a node the generator knows: "
    "(a) one of 14 entity operators of vlib.c03_gen (dangling property type, invariant without description, duplicate "
    "invariant, non-None default, uninitialised property, constructor argument type/order mismatch, reserved "
    "class/property prefix, unanchored pattern, dangling base, non-string enumeration literal, dangling docstring "
    "reference, len() of a number [late, type inference]) or (b) one of 22 stand-alone offending statements (bad imports, "
    "stray assignment/expression, bad constant definitions, unknown decorators, dangling types/bases, one-line class, bad "
    "constructor statement, bad invariant description, docstring reference, understood method, unknown callee [late]) "
    "inserted on LINE 1 (25 %), before a drawn top-level entity or before __version__. Layout is randomised: 0-5 "
    "leading blank / whitespace-only / comment lines, non-ASCII characters (BMP and astral) earlier on the same line "
    "inside a string, tab indentation of the planted block or of the whole model. Observed through main.execute "
    "(jsonschema, csharp for late errors) and smoke.execute. Oracles: absolute - every 'At line L and column C' has "
    "1<=L<=#lines, 1<=C<=len(line)+1, is the start of an ast node / decorator '@' / '(' (or the first character of such a line) of the text (Python's own ast, "
    "col_offset converted from UTF-8 bytes to characters) and, for the lines of the operator's own error, lies in the "
    "candidate set {start of the planted node, of any enclosing node (decorated definition: '@' or keyword), first "
    "character / first non-blank of those lines, (1,1)}; metamorphic - prepending one comment line maps every (L, C) "
    "to (L+1, C) (module-level errors may stay at (1,1)). Non-trivial = at least one located error of the operator itself; "
    "distinct by final text."
)
ASSUMPTIONS = [
    "'offending construct or its enclosing statement' = any node on the ancestor chain of the planted node (enclosing expressions included, e.g. the call around a bad argument)",
    "asttokens starts a parenthesised/generator expression at its '(' and a decorated definition at its first '@': '(' and '@' tokens count as node starts",
    "errors attached to the module are expected at (1, 1), also when the file starts with blank lines; the start of the first statement is accepted too (asttokens starts the module there when the file starts with a whitespace-only line)",
    "lines are separated by '\\n' only (the generator emits no '\\r' or form feed)",
    "a wrong location in a text that starts with a space/tab is classified under the 'displaced' LinenoColumner bucket (position table built from the module text instead of the source)",
    "a column that is exactly one too large on a line > 1 is classified under the known LinenoColumner bucket and the corrected position is judged further",
]

COMMENT_LINES = ["", "", "   ", "# comment", "# -*- coding: utf-8 -*-", "# caf\u00e9 \U0001F600 comment", "\t",
                 # characters that str.splitlines() treats as line boundaries but Python source does not
                 "# a\u2028b", "# a\u2029b\x0cc", "# a\x85b\x1cc\x1dd\x1ee", "'\u2028 \x0c'",
                 # decomposed sequences (change under Unicode normalisation)
                 "# e\u0308 \u1100\u1161"]
PREPENDED = "# zq prepended \u00e9\n"


class Snip:
    def __init__(self, name: str, code: str, marker: str, needle: str, late: bool = False, scope: str = "chain",
                 simple: bool = False) -> None:
        self.name = name
        self.code = code  # {I} = one indentation unit, {P} = same-line prefix (simple statements only)
        self.marker = marker
        self.needle = needle
        self.late = late
        self.scope = scope  # chain: ancestor chain of the marker nodes; stmt: any node of the planted statement
        self.simple = simple


SNIPS = [
    Snip("import-plain", "{P}import zq_mod", "zq_mod", "Unexpected ``import ...``", simple=True),
    Snip("import-as", "{P}from os import path as zq_p", "zq_p", "Unexpected ``from ... import ... as ...``", simple=True),
    Snip("stray-assign", "{P}zq_x = 3", "zq_x", "zq_x", simple=True),
    Snip("stray-expr", "{P}print(zq_x)", "zq_x", "zq_x", simple=True),
    Snip("constant-not-call", "{P}Zq_c: str = 'zq_val'", "zq_val", "'Zq_c'", simple=True, scope="stmt"),
    Snip("constant-bad-keyword", "{P}Zq_c: int = constant_int(value=1, zq_kw=3)", "zq_kw", "zq_kw", simple=True),
    Snip("constant-set-bad-element", "{P}Zq_s: Set[str] = constant_set(values=['\u00e9\U0001F600', zq_bad])", "zq_bad",
         "zq_bad", simple=True),
    Snip("reserved-class", "class I_zq_c:\n{I}pass", "I_zq_c", "I_zq_c"),
    Snip("unknown-decorator", "@zq_deco\nclass Zq_c:\n{I}pass", "zq_deco", "zq_deco"),
    Snip("second-decorator-unknown", "@abstract\n@zq_deco(1)\nclass Zq_c:\n{I}pass", "zq_deco", "zq_deco"),
    Snip("dangling-type", "class Zq_c:\n{I}zq_p: 'Zq_unknown'", "Zq_unknown", "Zq_unknown"),
    Snip("dangling-type-one-line-class", "class Zq_c: zq_p: 'Zq_unknown'", "Zq_unknown", "Zq_unknown"),
    Snip("non-verification-function", "def zq_f(x: int) -> bool:\n{I}return True", "zq_f", "'zq_f'"),
    Snip("enum-literal-nonstring", "class Zq_e(Enum):\n{I}Zq_a = '\u00e9'; Zq_lit = 3", "Zq_lit", "but got: 3", scope="stmt"),
    Snip("dangling-base", "class Zq_c(Zq_unknown_base):\n{I}pass", "Zq_unknown_base", "Zq_unknown_base"),
    Snip("constructor-unknown-property",
         "class Zq_c:\n{I}x: int\n\n{I}def __init__(self, x: int) -> None:\n{I}{I}self.x = x; self.zq_y = x", "zq_y", "zq_y"),
    Snip("invariant-unknown-member",
         "@invariant(lambda self: len('\u00e9') > 0 and self.zq_missing > 0, '\u00e9 desc')\nclass Zq_c:\n{I}x: int\n\n"
         "{I}def __init__(self, x: int) -> None:\n{I}{I}self.x = x", "zq_missing", "'zq_missing'", late=True),
    Snip("invariant-description-not-literal", "@invariant(lambda self: len('\u00e9') > 0, zq_desc)\nclass Zq_c:\n{I}pass",
         "zq_desc", "description of an invariant"),
    Snip("docstring-dangling-reference", "class Zq_c:\n{I}'''\u00e9 :class:`Zq_nope`'''", "Zq_nope", "Zq_nope"),
    Snip("annotation-attribute", "class Zq_c:\n{I}x: Optional[List[zq_mod.zq_attr]]", "zq_attr", "zq_mod.zq_attr"),
    Snip("understood-method", "class Zq_c:\n{I}def zq_m(self) -> None:\n{I}{I}pass", "zq_m", "'zq_m'", late=True),
    Snip("verification-unknown-callee", "@verification\ndef zq_f(x: int) -> bool:\n{I}return zq_g(x)", "zq_g", "'zq_g'",
         late=True),
]
SNIPS_BY_NAME = {s.name: s for s in SNIPS}
PREFIXES = ["", "", "'\u00e9\U0001F600'; ", "'\u20ac\u00e9\u00e9'; ", "'e\u0308o\u0308'; ", "'\u1100\u1161\u11a8'; ", "'\u2028'; "]


# ---------------------------------------------------------------------------
# Generation
# ---------------------------------------------------------------------------


def tabify(text: str) -> str:
    return re.sub(r"^(?: {4})+", lambda m: "\t" * (len(m.group(0)) // 4), text, flags=re.M)


@st.composite
def cases(draw: Any) -> Dict[str, Any]:
    spec = draw(mmgen.specs(mmgen.Opts(max_classes=draw(st.integers(1, 4)), max_props=draw(st.integers(1, 3)),
                                       docs=draw(st.sampled_from(["none", "plain"])))))
    spec_text = mmgen.render(spec)
    # choices among many alternatives go through a PRNG seeded by Hypothesis draws (an integer, which favours small
    # values, mixed with a checksum of the drawn model)
    rng = random.Random(draw(st.integers(0, 2 ** 32 - 1)) ^ zlib.crc32(spec_text.encode("utf-8")))
    how = rng.choice(["snip", "op"])
    case = {"via": rng.choice(["execute", "execute", "execute", "smoke"])}  # type: Dict[str, Any]
    lead = [rng.choice(COMMENT_LINES) for _ in range(rng.randint(0, 5))]
    if how == "op":
        text = mmgen.render(spec)
        if rng.randint(0, 4) == 0:
            text = tabify(text)
        try:
            src = g.Src(text)
        except (SyntaxError, ValueError):
            how = "snip"
        else:
            applicable = [(op, op.sites(src)) for op in g.OPS]
            applicable = [(op, s) for op, s in applicable if s]
            if not applicable:
                how = "snip"
            else:
                op, sites = rng.choice(applicable)
                site = rng.choice(sites)
                case.update({"how": "op", "op": op.name, "site": site, "base": text, "lead": lead})
                return case
    # stand-alone statement
    snip = rng.choice(SNIPS)
    where = rng.choice(["top", "top", "middle", "middle", "end"])
    indent = rng.choice(["    ", "    ", "\t", "  "])
    prefix = rng.choice(PREFIXES) if snip.simple else ""
    if where == "top":
        spec.module_doc = None
        lead = []
    text = mmgen.render(spec)
    if rng.randint(0, 5) == 0:
        text = tabify(text)
    case.update({"how": "snip", "snip": snip.name, "where": where, "indent": indent, "prefix": prefix, "base": text,
                 "lead": lead, "pos": rng.randint(0, 30)})
    return case


def build(case: Dict[str, Any]) -> Optional[Tuple[str, List[ast.AST], g.Src, str, bool]]:
    """Final text, the planted nodes, Src of the final text, the needle, late flag — or None if not applicable."""
    base = case["base"]
    lead = "".join(ln + "\n" for ln in case.get("lead", []))
    if case["how"] == "op":
        op = g.OPS_BY_NAME.get(case.get("op"))
        if op is None:
            return None
        mutated = op.apply(g.Src(base), case["site"])
        if mutated is None:
            return None
        text = lead + mutated
        src = g.Src(text)
        return text, op.nodes(src, case["site"]), src, op.needle(case["site"]), op.late
    snip = SNIPS_BY_NAME.get(case.get("snip"))
    if snip is None:
        return None
    code = snip.code.replace("{I}", case.get("indent", "    ")).replace("{P}", case.get("prefix", ""))
    where = case.get("where")
    if where == "top":
        text = code + "\n\n\n" + base
    else:
        bsrc = g.Src(base)
        tops = [n for n in bsrc.tree.body if isinstance(n, (ast.ClassDef, ast.FunctionDef, ast.AnnAssign))]
        if where == "middle" and tops:
            n = tops[case.get("pos", 0) % len(tops)]
            first = min([n.lineno] + [d.lineno for d in getattr(n, "decorator_list", [])])
            lines = base.split("\n")
            lines[first - 1:first - 1] = code.split("\n") + ["", ""]
            text = "\n".join(lines)
        else:
            i = base.find("__version__")
            if i < 0:
                return None
            text = base[:i] + code + "\n\n\n" + base[i:]
        text = lead + text
    src = g.Src(text)
    nodes = src.carrying(snip.marker)
    if snip.scope == "stmt":
        stmts = []
        for n in nodes:
            chain = [n] + src.ancestors(n)
            for c in chain:
                if isinstance(c, ast.stmt):
                    stmts.append(c)
                    break
        nodes = [d for s_ in stmts for d in ast.walk(s_) if hasattr(d, "lineno")]
    return text, nodes, src, snip.needle, snip.late


# ---------------------------------------------------------------------------
# Observation + oracles
# ---------------------------------------------------------------------------


def observe(text: str, via: str, late: bool, base: pathlib.Path) -> Tuple[int, str]:
    """(rc, stderr with the model path normalised); exceptions propagate."""
    if via == "smoke":
        from aas_core_codegen.smoke import main as smoke_main

        d = sut.fresh_dir(base, "c04")
        try:
            mp = d / "meta_model.py"
            mp.write_text(text, encoding="utf-8")
            err = io.StringIO()
            rc = smoke_main.execute(model_path=mp, stderr=err)
            return rc, err.getvalue().replace(str(mp), "<model>")
        finally:
            shutil.rmtree(d, ignore_errors=True)
    rc, _, err, _ = sut.generate(text, "csharp" if late else "jsonschema", base)
    return rc, re.sub(r"/\S*meta_model\.py", "<model>", err)


SHIFT = "column-one-too-large-on-lines-after-the-first@common.LinenoColumner"
DISPLACED = "all-locations-displaced-when-text-starts-with-whitespace@common.LinenoColumner"
MODULE_NL = "module-level-error-located-on-line-2-when-text-starts-with-newline@common.LinenoColumner"


def evaluate(case: Dict[str, Any], base: pathlib.Path) -> Dict[str, Any]:
    res = {"fails": [], "classes": [], "nt": False, "excluded": [], "text": None}  # type: Dict[str, Any]
    try:
        built = build(case)
    except (SyntaxError, ValueError):
        res["excluded"].append("planted-text-not-python")
        return res
    if built is None:
        res["excluded"].append("operator-inapplicable")
        return res
    text, nodes, src, needle, late = built
    res["text"] = text
    via = case.get("via", "execute")
    try:
        rc, err = observe(text, via, late, base)
        rc2, err2 = observe(PREPENDED + text, via, late, base)
    except BaseException as e:  # noqa: crashes belong to C01/C02
        if type(e).__name__ in ("KeyboardInterrupt", "SystemExit", "MemoryError"):
            raise
        res["excluded"].append(f"exception-escaped:{runner.exc_bucket(e)}")
        return res
    locs = g.located(err)
    if rc == 0:
        res["classes"].append("accepted")
        return res
    if not locs:
        res["classes"].append("rejected-without-location")
        return res
    starts = src.node_starts()
    cands = src.candidates(nodes)
    nlines = len(src.lines) - (1 if text.endswith("\n") else 0)
    n_target = 0
    target_line1 = False
    own_located = any(needle in msg and (ln, col) in cands for (ln, col, msg, _ind) in locs)
    for (ln, col, msg, _ind) in locs:
        where = f"'At line {ln} and column {col}: {msg[:150]}'"
        if not (1 <= ln <= nlines):
            res["fails"].append((DISPLACED if text[:1] in (" ", "\t") else "line-out-of-range",
                                 f"{where}: the text has {nlines} lines"))
            continue
        line = src.lines[ln - 1]
        # an error with the operator's message that sits elsewhere although one sits at the planted construct
        # stems from another entity of the base model (e.g. a second conflicting length bound): judged as "other"
        is_target = needle in msg and not (own_located and (ln, col) not in cands)
        ok_set = cands if is_target else starts
        if is_target:
            n_target += 1
            if ln == 1:
                target_line1 = True
                res["classes"].append("own-error-on-line-1")
                if col > 1:
                    res["classes"].append("own-error-on-line-1-col>1")
        if (ln, col) in ok_set and 1 <= col <= len(line) + 1:
            continue
        if text[:1] in (" ", "\t"):
            # the position table is built from the module's text, which asttokens starts after the leading whitespace
            res["fails"].append((DISPLACED, f"{where}: the text starts with {text[:text.find(chr(10)) + 1]!r}; line {ln} is {line!r}"))
            continue
        if ln > 1 and (ln, col - 1) in ok_set:
            res["fails"].append((SHIFT, f"{where}: column {col - 1} is the start of the construct, line {ln} is {line!r}"))
            continue
        if text.startswith("\n") and (ln, col) in ((2, 1), (2, 0)):
            res["fails"].append((MODULE_NL, f"{where}: the text starts with a blank line; line 2 is {line!r}"))
            continue
        if not (1 <= col <= len(line) + 1):
            res["fails"].append(("column-out-of-range", f"{where}: line {ln} is {line!r} ({len(line)} characters)"))
        elif is_target:
            res["fails"].append(("own-error-not-at-the-planted-construct",
                                 f"{where}: candidates={sorted(cands)} line {ln} is {line!r}"))
        else:
            res["fails"].append(("location-is-not-the-start-of-a-node", f"{where}: line {ln} is {line!r}"))
    res["classes"].append("located-own-error" if n_target else "located-other-only")
    res["classes"] = sorted(set(res["classes"]))
    if any(ln > 1 and any(ord(ch) > 127 for ch in src.lines[ln - 1][:max(0, col - 1)]) for ln, col, _, _ in locs
           if 1 <= ln <= nlines) or any(ln == 1 and any(ord(ch) > 127 for ch in src.lines[0][:max(0, col - 1)])
                                        for ln, col, _, _ in locs):
        res["classes"].append("non-ascii-before-construct")
    if any(1 <= ln <= nlines and "\t" in src.lines[ln - 1][:max(0, col - 1)] for ln, col, _, _ in locs):
        res["classes"].append("tab-before-construct")
    res["nt"] = n_target > 0

    # metamorphic: one comment line prepended
    locs2 = g.located(err2)
    if rc2 == 0 or [m for _, _, m, _ in locs] != [m for _, _, m, _ in locs2]:
        res["fails"].append(("metamorphic:report-changes-when-comment-line-prepended",
                             f"--- original:\n{err[:1200]}\n--- with a comment line prepended:\n{err2[:1200]}"))
        return res
    for (ln, col, msg, _), (ln2, col2, _, _) in zip(locs, locs2):
        if (ln2, col2) == (ln + 1, col):
            continue
        if (ln2, col2) == (1, 1) and (ln, col) in ((1, 1), src.first_statement_start()):
            continue  # module-level: asttokens starts the module at (1, 1) or at its first statement
        d = f"'{msg[:120]}': ({ln}, {col}) became ({ln2}, {col2}) after prepending one comment line; expected ({ln + 1}, {col})"
        if text[:1] in (" ", "\t"):
            res["fails"].append((DISPLACED, d + f"; the text starts with {text[:text.find(chr(10)) + 1]!r}"))
        elif ln == 1 and (ln2, col2) == (2, col + 1):
            res["fails"].append((SHIFT, d))
        elif text.startswith("\n") and (ln, col) in ((2, 1), (2, 0)) and (ln2, col2) == (1, 1):
            res["fails"].append((MODULE_NL, d))
        else:
            res["fails"].append(("metamorphic:location-not-moved-by-one-line", d))
    return res


# ---------------------------------------------------------------------------
# Shard / replay / health
# ---------------------------------------------------------------------------


def shard(ctx: runner.Ctx) -> None:
    n = ctx.n(1_600, 100_000)

    def one(case: Dict[str, Any]) -> None:
        res = evaluate(case, ctx.scratch)
        for r in res["excluded"]:
            ctx.exclude(r)
        if res["text"] is None or not res["classes"]:
            return
        what = case.get("op") or case.get("snip")
        classes = [f"plant:{what}", f"via:{case.get('via')}"] + res["classes"]
        if case["how"] == "snip":
            classes.append(f"where:{case.get('where')}")
            if case.get("indent") == "\t":
                classes.append("tab-indented-plant")
        nlead = len(case.get("lead", []))
        classes.append(f"leading-lines:{nlead}")
        ctx.case(res["nt"], key=[res["text"], case.get("via")],
                 sample={"plant": what, "via": case.get("via"), "where": case.get("where"), "lead": case.get("lead"),
                         "classes": res["classes"], "text_head": res["text"][:300]},
                 classes=classes)
        ctx.notes["located_reports"] = ctx.notes.get("located_reports", 0) + (2 if res["nt"] else 0)
        for b, m in res["fails"]:
            ctx.fail(b, case, m)

    runner.hyp_run(cases(), one, n, ctx.seed)


def replay(case: Any) -> List[Tuple[str, str]]:
    if not isinstance(case, dict) or not isinstance(case.get("base"), str) or case.get("how") not in ("op", "snip"):
        return []
    c = dict(case)
    if not isinstance(c.get("lead"), list) or not all(isinstance(x, str) and "\n" not in x for x in c["lead"]):
        c["lead"] = []
    if c["how"] == "op" and not (isinstance(c.get("site"), list) and c["site"]
                                 and all(isinstance(x, (str, int)) for x in c["site"])):
        return []
    if c["how"] == "snip":
        if not isinstance(c.get("indent"), str) or c["indent"].strip(" \t") != "" or c["indent"] == "":
            c["indent"] = "    "
        if c.get("prefix") not in PREFIXES:
            c["prefix"] = ""
        if not isinstance(c.get("pos"), int):
            c["pos"] = 0
    base = runner.make_scratch("c04-replay")
    try:
        res = evaluate(c, base)
    except (SyntaxError, ValueError, IndexError, KeyError, TypeError, AttributeError):
        return []
    finally:
        shutil.rmtree(base, ignore_errors=True)
    return res["fails"]


def health(m: Any, tier: str) -> Any:
    ev = max(1, m["evaluations"])
    cl = m["classes"]
    if m["nontrivial_n"] < 0.5 * ev:
        return f"only {m['nontrivial_n']} non-trivial of {ev}"
    for k, frac in (("own-error-on-line-1", 0.06), ("own-error-on-line-1-col>1", 0.02), ("non-ascii-before-construct", 0.03),
                    ("tab-before-construct", 0.03), ("located-own-error", 0.5), ("via:smoke", 0.1)):
        if cl.get(k, 0) < frac * ev:
            return f"class {k} holds only {cl.get(k, 0)} of {ev}"
    return None


if __name__ == "__main__":
    runner.main(sys.modules[__name__])
